//! E4 — systematic single-field alteration of honest proofs, and forgeries built with the
//! scheme reference. Proof fields are public; node fields are read back through the node's
//! public compact encoding and rebuilt with `Node::new`.

use crate::scheme;
use compact_encoding::CompactEncoding;
use hypercore::{DataBlock, DataHash, DataSeek, DataUpgrade, Node, Proof, SigningKey};

pub fn varint(b: &[u8]) -> (u64, &[u8]) {
    match b[0] {
        0xfd => (u16::from_le_bytes([b[1], b[2]]) as u64, &b[3..]),
        0xfe => (u32::from_le_bytes([b[1], b[2], b[3], b[4]]) as u64, &b[5..]),
        0xff => (u64::from_le_bytes(b[1..9].try_into().unwrap()), &b[9..]),
        x => (x as u64, &b[1..]),
    }
}

/// (index, size, hash) of a node, via its public encoding.
pub fn node_parts(nd: &Node) -> (u64, u64, [u8; 32]) {
    let mut buf = vec![0u8; nd.encoded_size().expect("node size")];
    nd.encode(&mut buf).expect("node encode");
    let (i, r) = varint(&buf);
    let (l, r) = varint(r);
    let mut h = [0u8; 32];
    h.copy_from_slice(&r[..32]);
    (i, l, h)
}
pub fn mk_node(i: u64, l: u64, h: &[u8; 32]) -> Node {
    Node::new(i, h.to_vec(), l)
}

#[derive(Clone, Copy, Debug, PartialEq, Eq)]
pub enum Bits {
    /// bits 0 and 7 of the first, middle and last byte
    Few,
    /// every bit
    All,
}

fn bit_positions(nbytes: usize, mode: Bits) -> Vec<(usize, u8)> {
    if nbytes == 0 {
        return vec![];
    }
    match mode {
        Bits::All => (0..nbytes).flat_map(|b| (0..8u8).map(move |k| (b, k))).collect(),
        Bits::Few => {
            let mut bytes = vec![0, nbytes / 2, nbytes - 1];
            bytes.dedup();
            bytes.into_iter().flat_map(|b| [(b, 0u8), (b, 7u8)]).collect()
        }
    }
}

#[derive(Clone, Debug)]
pub struct Alt {
    /// field class, used as signature, e.g. "block.node.hash"
    pub class: String,
    /// exact description, e.g. "block.nodes[1].hash bit 17"
    pub desc: String,
    pub proof: Proof,
    /// the statement requires refusal (block bytes, authenticated hashes/sizes, signature,
    /// claimed length, fork, foreign key); otherwise only the safety clause applies
    pub must_refuse: bool,
}

#[derive(Clone, Copy, PartialEq, Eq, Debug)]
enum Sec {
    Block,
    Hash,
    Seek,
    Up,
    Add,
}

fn sec_name(s: Sec) -> &'static str {
    match s {
        Sec::Block => "block.nodes",
        Sec::Hash => "hash.nodes",
        Sec::Seek => "seek.nodes",
        Sec::Up => "upgrade.nodes",
        Sec::Add => "upgrade.additional_nodes",
    }
}

fn nodes_of(p: &Proof, s: Sec) -> Option<&Vec<Node>> {
    match s {
        Sec::Block => p.block.as_ref().map(|b| &b.nodes),
        Sec::Hash => p.hash.as_ref().map(|b| &b.nodes),
        Sec::Seek => p.seek.as_ref().map(|b| &b.nodes),
        Sec::Up => p.upgrade.as_ref().map(|b| &b.nodes),
        Sec::Add => p.upgrade.as_ref().map(|b| &b.additional_nodes),
    }
}
fn nodes_mut(p: &mut Proof, s: Sec) -> &mut Vec<Node> {
    match s {
        Sec::Block => &mut p.block.as_mut().unwrap().nodes,
        Sec::Hash => &mut p.hash.as_mut().unwrap().nodes,
        Sec::Seek => &mut p.seek.as_mut().unwrap().nodes,
        Sec::Up => &mut p.upgrade.as_mut().unwrap().nodes,
        Sec::Add => &mut p.upgrade.as_mut().unwrap().additional_nodes,
    }
}

/// All single-field alterations of an honest proof.
pub fn alterations(proof: &Proof, bits: Bits, foreign: &Node) -> Vec<Alt> {
    let mut out: Vec<Alt> = vec![];
    let mut push = |class: &str, desc: String, p: Proof, must: bool| {
        if &p != proof {
            out.push(Alt {
                class: class.to_string(),
                desc,
                proof: p,
                must_refuse: must,
            })
        }
    };
    // fork
    {
        let mut p = proof.clone();
        p.fork += 1;
        push("fork", "fork+1".into(), p, true);
        if proof.fork > 0 {
            let mut p = proof.clone();
            p.fork -= 1;
            push("fork", "fork-1".into(), p, true);
        }
    }
    // block value and index
    if let Some(b) = &proof.block {
        for (byte, bit) in bit_positions(b.value.len(), bits) {
            let mut p = proof.clone();
            p.block.as_mut().unwrap().value[byte] ^= 1 << bit;
            push("block.value", format!("block.value byte {byte} bit {bit}"), p, true);
        }
        {
            let mut p = proof.clone();
            p.block.as_mut().unwrap().value.push(0);
            push("block.value", "block.value + one zero byte".into(), p, true);
        }
        if !b.value.is_empty() {
            let mut p = proof.clone();
            p.block.as_mut().unwrap().value.pop();
            push("block.value", "block.value - last byte".into(), p, true);
        }
        {
            let mut p = proof.clone();
            p.block.as_mut().unwrap().index += 1;
            push("block.index", "block.index+1".into(), p, false);
        }
        if b.index > 0 {
            let mut p = proof.clone();
            p.block.as_mut().unwrap().index -= 1;
            push("block.index", "block.index-1".into(), p, false);
        }
    }
    if let Some(h) = &proof.hash {
        {
            let mut p = proof.clone();
            p.hash.as_mut().unwrap().index += 1;
            push("hash.index", "hash.index+1".into(), p, false);
        }
        if h.index > 0 {
            let mut p = proof.clone();
            p.hash.as_mut().unwrap().index -= 1;
            push("hash.index", "hash.index-1".into(), p, false);
        }
    }
    if let Some(s) = &proof.seek {
        {
            let mut p = proof.clone();
            p.seek.as_mut().unwrap().bytes += 1;
            push("seek.bytes", "seek.bytes+1".into(), p, false);
        }
        if s.bytes > 0 {
            let mut p = proof.clone();
            p.seek.as_mut().unwrap().bytes -= 1;
            push("seek.bytes", "seek.bytes-1".into(), p, false);
        }
    }
    if let Some(u) = &proof.upgrade {
        for (byte, bit) in bit_positions(u.signature.len(), bits) {
            let mut p = proof.clone();
            p.upgrade.as_mut().unwrap().signature[byte] ^= 1 << bit;
            push("upgrade.signature", format!("upgrade.signature byte {byte} bit {bit}"), p, true);
        }
        {
            let mut p = proof.clone();
            p.upgrade.as_mut().unwrap().signature.pop();
            push("upgrade.signature", "upgrade.signature 63 bytes".into(), p, true);
        }
        {
            let mut p = proof.clone();
            p.upgrade.as_mut().unwrap().length += 1;
            push("upgrade.length", "upgrade.length+1".into(), p, true);
        }
        if u.length > 0 {
            let mut p = proof.clone();
            p.upgrade.as_mut().unwrap().length -= 1;
            push("upgrade.length", "upgrade.length-1".into(), p, true);
        }
        {
            let mut p = proof.clone();
            p.upgrade.as_mut().unwrap().start += 1;
            push("upgrade.start", "upgrade.start+1".into(), p, true);
        }
        if u.start > 0 {
            let mut p = proof.clone();
            p.upgrade.as_mut().unwrap().start -= 1;
            push("upgrade.start", "upgrade.start-1".into(), p, true);
        }
    }
    // per-node alterations
    for sec in [Sec::Block, Sec::Hash, Sec::Seek, Sec::Up, Sec::Add] {
        let Some(nodes) = nodes_of(proof, sec) else { continue };
        let nn = nodes.len();
        for k in 0..nn {
            let (i, l, h) = node_parts(&nodes[k]);
            // the size of the bottom node of hash-only and seek sections is excluded by the
            // statement (the scheme does not authenticate it individually)
            let excluded_size = k == 0 && (sec == Sec::Hash || sec == Sec::Seek);
            for (byte, bit) in bit_positions(32, bits) {
                let mut hh = h;
                hh[byte] ^= 1 << bit;
                let mut p = proof.clone();
                nodes_mut(&mut p, sec)[k] = mk_node(i, l, &hh);
                push(
                    &format!("{}.hash", sec_name(sec)),
                    format!("{}[{k}].hash byte {byte} bit {bit}", sec_name(sec)),
                    p,
                    true,
                );
            }
            if !excluded_size {
                for d in [1i64, -1] {
                    if d < 0 && l == 0 {
                        continue;
                    }
                    let mut p = proof.clone();
                    nodes_mut(&mut p, sec)[k] = mk_node(i, (l as i64 + d) as u64, &h);
                    push(
                        &format!("{}.size", sec_name(sec)),
                        format!("{}[{k}].size{:+}", sec_name(sec), d),
                        p,
                        true,
                    );
                }
            }
            for d in [1i64, -1] {
                if d < 0 && i == 0 {
                    continue;
                }
                let mut p = proof.clone();
                nodes_mut(&mut p, sec)[k] = mk_node((i as i64 + d) as u64, l, &h);
                push(
                    &format!("{}.index", sec_name(sec)),
                    format!("{}[{k}].index{:+}", sec_name(sec), d),
                    p,
                    false,
                );
            }
            {
                let mut p = proof.clone();
                nodes_mut(&mut p, sec).remove(k);
                push(&format!("{}.drop", sec_name(sec)), format!("{} drop [{k}]", sec_name(sec)), p, false);
            }
            {
                let mut p = proof.clone();
                let c = nodes_mut(&mut p, sec)[k].clone();
                nodes_mut(&mut p, sec).insert(k, c);
                push(&format!("{}.dup", sec_name(sec)), format!("{} duplicate [{k}]", sec_name(sec)), p, false);
            }
            if k + 1 < nn {
                let mut p = proof.clone();
                nodes_mut(&mut p, sec).swap(k, k + 1);
                push(&format!("{}.swap", sec_name(sec)), format!("{} swap [{k}],[{}]", sec_name(sec), k + 1), p, false);
            }
        }
        for k in 0..=nn {
            let mut p = proof.clone();
            nodes_mut(&mut p, sec).insert(k, foreign.clone());
            push(&format!("{}.insert", sec_name(sec)), format!("{} insert foreign node at {k}", sec_name(sec)), p, false);
        }
    }
    // section removal
    if proof.block.is_some() {
        let mut p = proof.clone();
        p.block = None;
        push("remove.block", "block section removed".into(), p, false);
    }
    if proof.hash.is_some() {
        let mut p = proof.clone();
        p.hash = None;
        push("remove.hash", "hash section removed".into(), p, false);
    }
    if proof.seek.is_some() {
        let mut p = proof.clone();
        p.seek = None;
        push("remove.seek", "seek section removed".into(), p, false);
    }
    if proof.upgrade.is_some() {
        let mut p = proof.clone();
        p.upgrade = None;
        push("remove.upgrade", "upgrade section removed".into(), p, false);
    }
    out
}

/// Forgery: the honest proof with the upgrade signature replaced by a valid signature of
/// another key over the very same tree head.
pub fn resign_with_other_key(proof: &Proof, other: &SigningKey, root_hash: &[u8; 32], length: u64) -> Option<Proof> {
    use ed25519_dalek::Signer;
    let u = proof.upgrade.as_ref()?;
    let msg = scheme::signable(root_hash, length, proof.fork);
    let sig = other.sign(&msg);
    let mut p = proof.clone();
    p.upgrade = Some(DataUpgrade {
        start: u.start,
        length: u.length,
        nodes: u.nodes.clone(),
        additional_nodes: u.additional_nodes.clone(),
        signature: sig.to_bytes().to_vec(),
    });
    Some(p)
}

#[allow(dead_code)]
pub fn clone_sections(p: &Proof) -> (Option<DataBlock>, Option<DataHash>, Option<DataSeek>, Option<DataUpgrade>) {
    (p.block.clone(), p.hash.clone(), p.seek.clone(), p.upgrade.clone())
}
