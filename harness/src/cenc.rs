//! Independent compact-encoding reference (varint: <=0xfc inline | 0xfd u16 | 0xfe u32 | 0xff
//! u64, little-endian; length-prefixed buffers and arrays; fixed 32-byte hashes) and the wire
//! messages of the protocol in `lib/messages.js` field order.

pub fn put_uint(out: &mut Vec<u8>, v: u64) {
    if v <= 0xfc {
        out.push(v as u8);
    } else if v <= 0xffff {
        out.push(0xfd);
        out.extend_from_slice(&(v as u16).to_le_bytes());
    } else if v <= 0xffff_ffff {
        out.push(0xfe);
        out.extend_from_slice(&(v as u32).to_le_bytes());
    } else {
        out.push(0xff);
        out.extend_from_slice(&v.to_le_bytes());
    }
}
pub fn put_buf(out: &mut Vec<u8>, b: &[u8]) {
    put_uint(out, b.len() as u64);
    out.extend_from_slice(b);
}
pub fn put_fixed(out: &mut Vec<u8>, b: &[u8]) {
    out.extend_from_slice(b);
}

#[derive(Debug)]
pub struct DecErr(pub String);

pub struct Dec<'a> {
    pub b: &'a [u8],
    pub pos: usize,
}
impl<'a> Dec<'a> {
    pub fn new(b: &'a [u8]) -> Self {
        Dec { b, pos: 0 }
    }
    pub fn rest(&self) -> usize {
        self.b.len() - self.pos
    }
    pub fn u8(&mut self) -> Result<u8, DecErr> {
        if self.pos >= self.b.len() {
            return Err(DecErr("eof".into()));
        }
        self.pos += 1;
        Ok(self.b[self.pos - 1])
    }
    pub fn take(&mut self, n: usize) -> Result<&'a [u8], DecErr> {
        if self.rest() < n {
            return Err(DecErr(format!("need {n} bytes, have {}", self.rest())));
        }
        let s = &self.b[self.pos..self.pos + n];
        self.pos += n;
        Ok(s)
    }
    pub fn uint(&mut self) -> Result<u64, DecErr> {
        let f = self.u8()?;
        Ok(match f {
            0xfd => u16::from_le_bytes(self.take(2)?.try_into().unwrap()) as u64,
            0xfe => u32::from_le_bytes(self.take(4)?.try_into().unwrap()) as u64,
            0xff => u64::from_le_bytes(self.take(8)?.try_into().unwrap()),
            x => x as u64,
        })
    }
    pub fn buf(&mut self) -> Result<&'a [u8], DecErr> {
        let n = self.uint()? as usize;
        self.take(n)
    }
}

// ---- wire messages (reference values) ------------------------------------------------------

#[derive(Debug, Clone, PartialEq, Eq)]
pub struct RNodeMsg {
    pub index: u64,
    pub size: u64,
    pub hash: [u8; 32],
}
pub fn enc_node(out: &mut Vec<u8>, n: &RNodeMsg) {
    put_uint(out, n.index);
    put_uint(out, n.size);
    put_fixed(out, &n.hash);
}
pub fn enc_nodes(out: &mut Vec<u8>, v: &[RNodeMsg]) {
    put_uint(out, v.len() as u64);
    for n in v {
        enc_node(out, n);
    }
}
pub fn dec_node(d: &mut Dec) -> Result<RNodeMsg, DecErr> {
    let index = d.uint()?;
    let size = d.uint()?;
    let mut hash = [0u8; 32];
    hash.copy_from_slice(d.take(32)?);
    Ok(RNodeMsg { index, size, hash })
}
pub fn dec_nodes(d: &mut Dec) -> Result<Vec<RNodeMsg>, DecErr> {
    let n = d.uint()? as usize;
    if n > d.rest() {
        return Err(DecErr("array length exceeds data".into()));
    }
    let mut v = Vec::with_capacity(n);
    for _ in 0..n {
        v.push(dec_node(d)?);
    }
    Ok(v)
}
