//! Driver: operation language, guarded calls into the real crate, observations and the
//! boring reference models (list model for a writer, replica model for a reader).

use crate::env::{self, Image, Shared};
use hypercore::{
    Hypercore, HypercoreBuilder, HypercoreError, PartialKeypair, Proof, RequestBlock, RequestSeek,
    RequestUpgrade, SigningKey,
};
use serde::{Deserialize, Serialize};
use std::cell::RefCell;
use std::collections::BTreeSet;
use std::future::Future;
use std::panic::{catch_unwind, AssertUnwindSafe};

// ------------------------------------------------------------------------------------------
// guarded calls

thread_local! {
    static LAST_PANIC: RefCell<Option<String>> = const { RefCell::new(None) };
}

pub fn install_panic_hook() {
    std::panic::set_hook(Box::new(|info| {
        let loc = info
            .location()
            .map(|l| {
                let f = l.file();
                let f = f.rsplit("/src/").next().unwrap_or(f);
                format!("{}:{}", f, l.line())
            })
            .unwrap_or_else(|| "?".into());
        let msg = if let Some(s) = info.payload().downcast_ref::<&str>() {
            s.to_string()
        } else if let Some(s) = info.payload().downcast_ref::<String>() {
            s.clone()
        } else {
            "panic".to_string()
        };
        if loc.starts_with("props/") || loc.starts_with("main.rs") || loc.starts_with("explore.rs") || loc.starts_with("report.rs") || loc.starts_with("sup.rs") || std::env::var("HCVERIF_DEBUG_PANIC").is_ok() {
            // a panic in the harness's own code is a machinery error: make it visible
            eprintln!("harness panic at {loc}: {msg}");
        }
        LAST_PANIC.with(|l| *l.borrow_mut() = Some(format!("{loc}: {msg}")));
    }));
}

#[derive(Debug, Clone, PartialEq, Eq)]
pub enum Out<T> {
    Ok(T),
    Err(String),
    Panic(String),
}

impl<T> Out<T> {
    pub fn is_ok(&self) -> bool {
        matches!(self, Out::Ok(_))
    }
    pub fn is_err(&self) -> bool {
        matches!(self, Out::Err(_))
    }
    pub fn is_panic(&self) -> bool {
        matches!(self, Out::Panic(_))
    }
    pub fn brief(&self) -> String
    where
        T: std::fmt::Debug,
    {
        match self {
            Out::Ok(v) => {
                let s = format!("Ok({v:?})");
                if s.len() > 80 {
                    format!("{}…", &s[..80])
                } else {
                    s
                }
            }
            Out::Err(e) => format!("Err({e})"),
            Out::Panic(p) => format!("PANIC({p})"),
        }
    }
    pub fn map<U>(self, f: impl FnOnce(T) -> U) -> Out<U> {
        match self {
            Out::Ok(v) => Out::Ok(f(v)),
            Out::Err(e) => Out::Err(e),
            Out::Panic(p) => Out::Panic(p),
        }
    }
}

/// Run a future of the crate to completion on the calling thread under `catch_unwind`.
pub fn guard<T, E: std::fmt::Display>(fut: impl Future<Output = Result<T, E>>) -> Out<T> {
    match catch_unwind(AssertUnwindSafe(|| futures::executor::block_on(fut))) {
        Ok(Ok(v)) => Out::Ok(v),
        Ok(Err(e)) => Out::Err(format!("{e}")),
        Err(_) => Out::Panic(
            LAST_PANIC
                .with(|l| l.borrow_mut().take())
                .unwrap_or_else(|| "?".into()),
        ),
    }
}

pub fn guard_sync<T>(f: impl FnOnce() -> T) -> Out<T> {
    match catch_unwind(AssertUnwindSafe(f)) {
        Ok(v) => Out::Ok(v),
        Err(_) => Out::Panic(
            LAST_PANIC
                .with(|l| l.borrow_mut().take())
                .unwrap_or_else(|| "?".into()),
        ),
    }
}

/// Normalise a message for signatures: digits stripped, truncated.
pub fn norm(s: &str) -> String {
    let t: String = s.chars().filter(|c| !c.is_ascii_digit()).collect();
    t.chars().take(70).collect()
}

// ------------------------------------------------------------------------------------------
// keys

pub fn key_pair(seed: u8) -> PartialKeypair {
    let sk = SigningKey::from_bytes(&[seed; 32]);
    PartialKeypair {
        public: sk.verifying_key(),
        secret: Some(sk),
    }
}
pub fn public_only(kp: &PartialKeypair) -> PartialKeypair {
    PartialKeypair {
        public: kp.public,
        secret: None,
    }
}
pub const KEY_SEED: u8 = 7;
pub const OTHER_KEY_SEED: u8 = 9;

// ------------------------------------------------------------------------------------------
// operation language

#[derive(Debug, Clone, PartialEq, Eq, Serialize, Deserialize)]
pub enum Blk {
    /// literal bytes
    L(Vec<u8>),
    /// n pattern bytes (never zero), content depends on the block index and tag
    P(u32, u8),
}

impl Blk {
    pub fn bytes(&self, idx: u64) -> Vec<u8> {
        match self {
            Blk::L(v) => v.clone(),
            Blk::P(n, t) => (0..*n)
                .map(|j| {
                    let x = (*t as u32) ^ ((idx as u32).wrapping_mul(37)) ^ j.wrapping_mul(11);
                    1 + (x % 255) as u8
                })
                .collect(),
        }
    }
    pub fn size(&self) -> u64 {
        match self {
            Blk::L(v) => v.len() as u64,
            Blk::P(n, _) => *n as u64,
        }
    }
}

/// A well-formed replica request, resolved against the replica's own state when executed.
#[derive(Debug, Clone, PartialEq, Eq, Serialize, Deserialize, Default)]
pub struct Req {
    /// hypercore block index
    pub block: Option<u64>,
    /// merkle tree index
    pub hash: Option<u64>,
    /// byte offset
    pub seek: Option<u64>,
    /// upgrade target length (request is start = replica length, length = target - start)
    pub up: Option<u64>,
}

#[derive(Debug, Clone, PartialEq, Eq, Serialize, Deserialize)]
pub enum Op {
    Append(Blk),
    Batch(Vec<Blk>),
    /// n one-byte blocks in one batch
    BatchN(u32),
    Clear(u64, u64),
    Reopen,
    MakeReadOnly,
    Get(u64),
    /// replica: request from own state, writer proves, replica applies
    RSync(Req),
    RReopen,
    RGet(u64),
    /// replica: clear a range of locally held blocks
    RClear(u64, u64),
    /// replica: apply an altered (must-refuse) version of the honest proof for Req; alteration id
    RBad(Req, u8),
}

impl Op {
    pub fn brief(&self) -> String {
        match self {
            Op::Append(b) => format!("append[{}]", b.size()),
            Op::Batch(v) => format!(
                "batch[{}]",
                v.iter().map(|b| b.size().to_string()).collect::<Vec<_>>().join(",")
            ),
            Op::BatchN(n) => format!("batch{n}x1"),
            Op::Clear(s, e) => format!("clear({s},{e})"),
            Op::Reopen => "reopen".into(),
            Op::MakeReadOnly => "make_read_only".into(),
            Op::Get(i) => format!("get({i})"),
            Op::RSync(r) => format!("rsync{}", req_brief(r)),
            Op::RReopen => "r.reopen".into(),
            Op::RGet(i) => format!("r.get({i})"),
            Op::RClear(s, e) => format!("r.clear({s},{e})"),
            Op::RBad(r, a) => format!("rbad#{a}{}", req_brief(r)),
        }
    }
    pub fn kind(&self) -> &'static str {
        match self {
            Op::Append(_) => "append",
            Op::Batch(_) | Op::BatchN(_) => "batch",
            Op::Clear(..) => "clear",
            Op::Reopen => "reopen",
            Op::MakeReadOnly => "make_read_only",
            Op::Get(_) => "get",
            Op::RSync(_) => "rsync",
            Op::RReopen => "rreopen",
            Op::RGet(_) => "rget",
            Op::RClear(..) => "rclear",
            Op::RBad(..) => "rbad",
        }
    }
    pub fn is_replica_op(&self) -> bool {
        matches!(self, Op::RSync(_) | Op::RReopen | Op::RGet(_) | Op::RClear(..) | Op::RBad(..))
    }
}

pub fn req_brief(r: &Req) -> String {
    let mut s = String::from("{");
    if let Some(b) = r.block {
        s += &format!("b{b}");
    }
    if let Some(h) = r.hash {
        s += &format!("h{h}");
    }
    if let Some(k) = r.seek {
        s += &format!("s{k}");
    }
    if let Some(u) = r.up {
        s += &format!("u{u}");
    }
    s + "}"
}

pub fn hist_brief(h: &[Op]) -> String {
    h.iter().map(|o| o.brief()).collect::<Vec<_>>().join("; ")
}

// ------------------------------------------------------------------------------------------
// list model (writer) and replica model

#[derive(Debug, Clone, PartialEq, Eq, Default)]
pub struct ListModel {
    pub blocks: Vec<Option<Vec<u8>>>,
    /// every block ever appended (clearing does not erase it here)
    pub orig: Vec<Vec<u8>>,
    pub sizes: Vec<u64>,
    pub writable: bool,
}

impl ListModel {
    pub fn new() -> Self {
        ListModel {
            blocks: vec![],
            orig: vec![],
            sizes: vec![],
            writable: true,
        }
    }
    pub fn len(&self) -> u64 {
        self.blocks.len() as u64
    }
    pub fn byte_len(&self) -> u64 {
        self.sizes.iter().sum()
    }
    pub fn contig(&self) -> u64 {
        self.blocks
            .iter()
            .position(|b| b.is_none())
            .unwrap_or(self.blocks.len()) as u64
    }
    fn push(&mut self, b: Vec<u8>) {
        self.sizes.push(b.len() as u64);
        self.orig.push(b.clone());
        self.blocks.push(Some(b));
    }
    /// Apply a writer-side operation; returns false when the op is outside the quantifier
    /// (clear with start >= length or start >= end) or not a writer-side state change.
    pub fn apply(&mut self, op: &Op) -> bool {
        match op {
            Op::Append(b) => {
                if self.writable {
                    let i = self.len();
                    self.push(b.bytes(i));
                }
                true
            }
            Op::Batch(v) => {
                if self.writable {
                    for b in v {
                        let i = self.len();
                        self.push(b.bytes(i));
                    }
                }
                true
            }
            Op::BatchN(n) => {
                if self.writable {
                    for _ in 0..*n {
                        let i = self.len();
                        self.push(Blk::P(1, 0).bytes(i));
                    }
                }
                true
            }
            Op::Clear(s, e) => {
                if *s >= self.len() || s >= e {
                    return false;
                }
                let e = (*e).min(self.len());
                for i in *s..e {
                    self.blocks[i as usize] = None;
                }
                true
            }
            Op::Reopen | Op::Get(_) => true,
            Op::MakeReadOnly => {
                self.writable = false;
                true
            }
            _ => true,
        }
    }
    pub fn byte_offset(&self, i: u64) -> u64 {
        self.sizes[..i as usize].iter().sum()
    }
}

#[derive(Debug, Clone, PartialEq, Eq, Default)]
pub struct ReplicaModel {
    pub len: u64,
    pub byte_len: u64,
    pub held: BTreeSet<u64>,
}

impl ReplicaModel {
    pub fn contig(&self) -> u64 {
        let mut c = 0;
        while self.held.contains(&c) {
            c += 1;
        }
        c
    }
}

// ------------------------------------------------------------------------------------------
// observations

#[derive(Debug, Clone, PartialEq, Eq)]
pub enum GetR {
    Some(Vec<u8>),
    None,
    Err(String),
    Panic(String),
}

#[derive(Debug, Clone, PartialEq, Eq)]
pub struct Obs {
    pub length: u64,
    pub byte_length: u64,
    pub contig: u64,
    pub fork: u64,
    pub writeable: bool,
    pub has: Vec<bool>,
    pub get: Vec<GetR>,
}

pub const FAR: [u64; 3] = [1 << 20, (1 << 32) + 5, u64::MAX];

/// Probe set for small cores: every index up to len+1 plus far ones.
pub fn small_probes(max_len: u64) -> Vec<u64> {
    let mut v: Vec<u64> = (0..=max_len + 1).collect();
    v.extend_from_slice(&FAR);
    v
}

pub fn observe(core: &mut Hypercore, has_probes: &[u64], get_probes: &[u64]) -> Obs {
    let info = core.info();
    let has = has_probes.iter().map(|&i| core.has(i)).collect();
    let get = get_probes
        .iter()
        .map(|&i| match guard(core.get(i)) {
            Out::Ok(Some(v)) => GetR::Some(v),
            Out::Ok(None) => GetR::None,
            Out::Err(e) => GetR::Err(e),
            Out::Panic(p) => GetR::Panic(p),
        })
        .collect();
    Obs {
        length: info.length,
        byte_length: info.byte_length,
        contig: info.contiguous_length,
        fork: info.fork,
        writeable: info.writeable,
        has,
        get,
    }
}

pub fn expect_writer(m: &ListModel, has_probes: &[u64], get_probes: &[u64]) -> Obs {
    let at = |i: u64| -> Option<&Vec<u8>> {
        if i < m.len() {
            m.blocks[i as usize].as_ref()
        } else {
            None
        }
    };
    Obs {
        length: m.len(),
        byte_length: m.byte_len(),
        contig: m.contig(),
        fork: 0,
        writeable: m.writable,
        has: has_probes.iter().map(|&i| at(i).is_some()).collect(),
        get: get_probes
            .iter()
            .map(|&i| match at(i) {
                Some(v) => GetR::Some(v.clone()),
                None => GetR::None,
            })
            .collect(),
    }
}

pub fn expect_replica(w: &ListModel, r: &ReplicaModel, has_probes: &[u64], get_probes: &[u64]) -> Obs {
    Obs {
        length: r.len,
        byte_length: r.byte_len,
        contig: r.contig(),
        fork: 0,
        writeable: false,
        has: has_probes.iter().map(|i| r.held.contains(i)).collect(),
        get: get_probes
            .iter()
            .map(|i| {
                if r.held.contains(i) {
                    // the replica keeps the original bytes even if the writer cleared later
                    GetR::Some(w.orig[*i as usize].clone())
                } else {
                    GetR::None
                }
            })
            .collect(),
    }
}

/// First difference between an observation and the expectation: (clause, detail).
pub fn diff_obs(
    got: &Obs,
    exp: &Obs,
    has_probes: &[u64],
    get_probes: &[u64],
    with_contig: bool,
) -> Option<(String, String)> {
    if got.length != exp.length {
        return Some(("length".into(), format!("length {} expected {}", got.length, exp.length)));
    }
    if got.byte_length != exp.byte_length {
        return Some((
            "byte_length".into(),
            format!("byte_length {} expected {}", got.byte_length, exp.byte_length),
        ));
    }
    if got.fork != exp.fork {
        return Some(("fork".into(), format!("fork {} expected {}", got.fork, exp.fork)));
    }
    if got.writeable != exp.writeable {
        return Some((
            "writeable".into(),
            format!("writeable {} expected {}", got.writeable, exp.writeable),
        ));
    }
    for (k, &i) in has_probes.iter().enumerate() {
        if got.has[k] != exp.has[k] {
            return Some(("has".into(), format!("has({i}) = {} expected {}", got.has[k], exp.has[k])));
        }
    }
    for (k, &i) in get_probes.iter().enumerate() {
        if got.get[k] != exp.get[k] {
            let clause = match &got.get[k] {
                GetR::Panic(_) => "get-panic",
                GetR::Err(_) => "get-err",
                _ => "get",
            };
            return Some((
                clause.into(),
                format!("get({i}) = {} expected {}", getr_brief(&got.get[k]), getr_brief(&exp.get[k])),
            ));
        }
    }
    if with_contig && got.contig != exp.contig {
        return Some((
            "contiguous_length".into(),
            format!("contiguous_length {} expected {}", got.contig, exp.contig),
        ));
    }
    None
}

pub fn getr_brief(g: &GetR) -> String {
    match g {
        GetR::Some(v) => {
            if v.len() <= 8 {
                format!("Some({v:?})")
            } else {
                format!("Some({} bytes {:?}…)", v.len(), &v[..6])
            }
        }
        GetR::None => "None".into(),
        GetR::Err(e) => format!("Err({e})"),
        GetR::Panic(p) => format!("PANIC({p})"),
    }
}

// ------------------------------------------------------------------------------------------
// the system under test: a writer and (optionally) a replica, each over its own world

#[derive(Debug, Clone, Copy, PartialEq, Eq, Serialize, Deserialize)]
pub enum CacheCfg {
    Off,
    Default,
    Tiny,
}

pub fn builder(st: hypercore::Storage, cache: CacheCfg) -> HypercoreBuilder {
    let b = HypercoreBuilder::new(st);
    match cache {
        CacheCfg::Off => b,
        CacheCfg::Default => b.node_cache_options(hypercore::CacheOptionsBuilder::new()),
        CacheCfg::Tiny => b.node_cache_options(hypercore::CacheOptionsBuilder::new().max_capacity(200)),
    }
}

pub fn create_on(w: &Shared, kp: PartialKeypair, cache: CacheCfg) -> Out<Hypercore> {
    let st = env::storage(w);
    guard(builder(st, cache).key_pair(kp).build())
}

pub fn open_on(w: &Shared, cache: CacheCfg) -> Out<Hypercore> {
    let st = env::storage(w);
    guard(builder(st, cache).open(true).build())
}

/// Result of executing one op.
#[derive(Debug, Clone, PartialEq, Eq)]
pub enum OpRes {
    Appended { length: u64, byte_length: u64 },
    Unit,
    Bool(bool),
    Got(Option<Vec<u8>>),
    /// replica sync: proof was created and the apply result
    Synced {
        proof: bool,
        applied: Option<Result<bool, String>>,
    },
}

pub struct Core {
    pub w: Shared,
    pub core: Option<Hypercore>,
    pub cache: CacheCfg,
}

impl Core {
    pub fn create(kp: PartialKeypair, cache: CacheCfg) -> Core {
        let w = env::new_world(env::empty_image());
        match create_on(&w, kp, cache) {
            Out::Ok(c) => Core {
                w,
                core: Some(c),
                cache,
            },
            o => crate::sup::setup_failed(serde_json::json!([]), &format!("cannot create a core on empty storage: {}", o.map(|_| ()).brief())),
        }
    }
    pub fn from_image(img: Image, cache: CacheCfg) -> (Core, Out<()>) {
        let w = env::new_world(img);
        let mut c = Core {
            w,
            core: None,
            cache,
        };
        let o = c.reopen();
        (c, o)
    }
    pub fn reopen(&mut self) -> Out<()> {
        self.core = None;
        match open_on(&self.w, self.cache) {
            Out::Ok(c) => {
                self.core = Some(c);
                Out::Ok(())
            }
            Out::Err(e) => Out::Err(e),
            Out::Panic(p) => Out::Panic(p),
        }
    }
    pub fn c(&mut self) -> &mut Hypercore {
        self.core.as_mut().expect("core is open")
    }
    pub fn image(&self) -> Image {
        env::image_of(&self.w)
    }
}

fn to_unit<T>(o: Out<T>) -> Out<OpRes> {
    o.map(|_| OpRes::Unit)
}

/// Execute a writer-side op on `core`. `next_index` is the model length (resolves block
/// patterns).
pub fn exec_writer(core: &mut Core, op: &Op, next_index: u64) -> Out<OpRes> {
    if core.core.is_none() && !matches!(op, Op::Reopen) {
        return Out::Err("harness: core not open".into());
    }
    match op {
        Op::Append(b) => {
            let data = b.bytes(next_index);
            guard(core.c().append(&data)).map(|o| OpRes::Appended {
                length: o.length,
                byte_length: o.byte_length,
            })
        }
        Op::Batch(v) => {
            let datas: Vec<Vec<u8>> = v
                .iter()
                .enumerate()
                .map(|(k, b)| b.bytes(next_index + k as u64))
                .collect();
            guard(core.c().append_batch(&datas)).map(|o| OpRes::Appended {
                length: o.length,
                byte_length: o.byte_length,
            })
        }
        Op::BatchN(n) => {
            let datas: Vec<Vec<u8>> = (0..*n as u64)
                .map(|k| Blk::P(1, 0).bytes(next_index + k))
                .collect();
            guard(core.c().append_batch(&datas)).map(|o| OpRes::Appended {
                length: o.length,
                byte_length: o.byte_length,
            })
        }
        Op::Clear(s, e) => to_unit(guard(core.c().clear(*s, *e))),
        Op::Reopen => to_unit(core.reopen()),
        Op::MakeReadOnly => guard(core.c().make_read_only()).map(OpRes::Bool),
        Op::Get(i) => guard(core.c().get(*i)).map(OpRes::Got),
        _ => Out::Err("harness: not a writer op".into()),
    }
}

/// Build the concrete request a well-behaved replica would send for `req`.
pub struct ConcreteReq {
    pub block: Option<RequestBlock>,
    pub hash: Option<RequestBlock>,
    pub seek: Option<RequestSeek>,
    pub upgrade: Option<RequestUpgrade>,
}

pub fn concretize(replica: &mut Hypercore, req: &Req) -> Out<ConcreteReq> {
    let rlen = replica.info().length;
    let block = match req.block {
        Some(i) => match guard(replica.missing_nodes(i)) {
            Out::Ok(n) => Some(RequestBlock { index: i, nodes: n }),
            Out::Err(e) => return Out::Err(format!("missing_nodes: {e}")),
            Out::Panic(p) => return Out::Panic(format!("missing_nodes: {p}")),
        },
        None => None,
    };
    let hash = match req.hash {
        Some(j) => match guard(replica.missing_nodes_from_merkle_tree_index(j)) {
            Out::Ok(n) => Some(RequestBlock { index: j, nodes: n }),
            Out::Err(e) => return Out::Err(format!("missing_nodes_from_merkle_tree_index: {e}")),
            Out::Panic(p) => return Out::Panic(format!("missing_nodes_from_merkle_tree_index: {p}")),
        },
        None => None,
    };
    let seek = req.seek.map(|b| RequestSeek { bytes: b });
    let upgrade = req.up.map(|to| RequestUpgrade {
        start: rlen,
        length: to - rlen,
    });
    Out::Ok(ConcreteReq {
        block,
        hash,
        seek,
        upgrade,
    })
}

pub fn create_proof(writer: &mut Hypercore, r: &ConcreteReq) -> Out<Option<Proof>> {
    guard(writer.create_proof(r.block.clone(), r.hash.clone(), r.seek.clone(), r.upgrade.clone()))
}

pub fn apply_proof(replica: &mut Hypercore, p: &Proof) -> Out<bool> {
    guard(replica.verify_and_apply_proof(p))
}

#[allow(dead_code)]
pub fn err_string(e: &HypercoreError) -> String {
    format!("{e}")
}
