//! The closed environment: a journaling `RandomAccess` backend over a shared `World`.
//!
//! Semantics of write / read / del / truncate are those of `random-access-memory` and
//! `random-access-disk` (C14 checks the three against each other, bytes included).
//! Every mutating operation is journaled; the explorer can rebuild the image after any
//! journal prefix (crash), apply a byte prefix of a write (torn write), fail the k-th storage
//! operation (I/O fault) and suspend at every storage operation (scheduling point).

use hypercore::{Storage, StorageTraits, Store};
use random_access_storage::{RandomAccess, RandomAccessError};
use serde::{Deserialize, Serialize};
use std::future::Future;
use std::pin::Pin;
use std::sync::{Arc, Mutex};
use std::task::{Context, Poll};

pub const TREE: usize = 0;
pub const DATA: usize = 1;
pub const BITFIELD: usize = 2;
pub const OPLOG: usize = 3;
pub const STORE_NAMES: [&str; 4] = ["tree", "data", "bitfield", "oplog"];

pub type Image = [Vec<u8>; 4];

pub fn empty_image() -> Image {
    [vec![], vec![], vec![], vec![]]
}

/// One mutating storage operation.
#[derive(Debug, Clone, PartialEq, Eq, Serialize, Deserialize)]
pub enum JOp {
    W { s: usize, off: u64, data: Vec<u8> },
    D { s: usize, off: u64, len: u64 },
    T { s: usize, len: u64 },
}

impl JOp {
    pub fn store(&self) -> usize {
        match self {
            JOp::W { s, .. } | JOp::D { s, .. } | JOp::T { s, .. } => *s,
        }
    }
    /// Coarse kind used in violation signatures: store + operation (+ oplog region).
    pub fn kind(&self) -> String {
        match self {
            JOp::W { s, off, .. } => {
                if *s == OPLOG {
                    if *off < 4096 {
                        "W:oplog:slot0".into()
                    } else if *off < 8192 {
                        "W:oplog:slot1".into()
                    } else {
                        "W:oplog:entry".into()
                    }
                } else {
                    format!("W:{}", STORE_NAMES[*s])
                }
            }
            JOp::D { s, .. } => format!("D:{}", STORE_NAMES[*s]),
            JOp::T { s, .. } => format!("T:{}", STORE_NAMES[*s]),
        }
    }
    pub fn brief(&self) -> String {
        match self {
            JOp::W { s, off, data } => format!("W {}@{}+{}", STORE_NAMES[*s], off, data.len()),
            JOp::D { s, off, len } => format!("D {}@{}+{}", STORE_NAMES[*s], off, len),
            JOp::T { s, len } => format!("T {}->{}", STORE_NAMES[*s], len),
        }
    }
}

pub fn apply(files: &mut Image, j: &JOp) {
    match j {
        JOp::W { s, off, data } => {
            let f = &mut files[*s];
            let end = *off as usize + data.len();
            if f.len() < end {
                f.resize(end, 0);
            }
            f[*off as usize..end].copy_from_slice(data);
        }
        JOp::D { s, off, len } => {
            let f = &mut files[*s];
            let flen = f.len() as u64;
            if *len == 0 {
                return;
            }
            if off + len >= flen {
                f.resize(*off as usize, 0);
            } else {
                for b in &mut f[*off as usize..(off + len) as usize] {
                    *b = 0;
                }
            }
        }
        JOp::T { s, len } => {
            files[*s].resize(*len as usize, 0);
        }
    }
}

/// Apply only the first `cut` bytes of a write (torn write). The torn prefix overwrites
/// existing bytes in place and extends the file only as far as it reaches.
pub fn apply_torn(files: &mut Image, j: &JOp, cut: usize) {
    if let JOp::W { s, off, data } = j {
        apply(
            files,
            &JOp::W {
                s: *s,
                off: *off,
                data: data[..cut].to_vec(),
            },
        );
    }
}

#[derive(Debug, Clone, Copy, PartialEq, Eq, Serialize, Deserialize)]
pub enum OpKind {
    Write,
    Read,
    Del,
    Truncate,
    Len,
}

#[derive(Debug, Default)]
pub struct World {
    pub files: Image,
    pub journal: Vec<JOp>,
    /// Count of all storage operations (reads and length queries included).
    pub nops: u64,
    /// Fail the storage operation with this ordinal once.
    pub fail_at: Option<u64>,
    pub failed_kind: Option<(usize, OpKind)>,
    /// Scheduling mode: every storage operation returns Pending once first.
    pub yield_all: bool,
    /// Optional trace of every storage operation (store, kind, tag of the issuing task).
    pub trace: Option<Vec<(usize, OpKind, u32)>>,
    /// Tag set by the scheduler to attribute storage operations to tasks.
    pub cur_tag: u32,
}

pub type Shared = Arc<Mutex<World>>;

pub fn new_world(files: Image) -> Shared {
    Arc::new(Mutex::new(World {
        files,
        ..Default::default()
    }))
}

fn io_err() -> RandomAccessError {
    RandomAccessError::IO {
        return_code: None,
        context: Some("injected fault".into()),
        source: std::io::Error::new(std::io::ErrorKind::Other, "injected fault"),
    }
}

#[derive(Debug)]
pub struct JournalStore {
    w: Shared,
    id: usize,
}

struct YieldOnce(bool);
impl Future for YieldOnce {
    type Output = ();
    fn poll(mut self: Pin<&mut Self>, cx: &mut Context<'_>) -> Poll<()> {
        if self.0 {
            Poll::Ready(())
        } else {
            self.0 = true;
            cx.waker().wake_by_ref();
            Poll::Pending
        }
    }
}

impl JournalStore {
    async fn point(&self, kind: OpKind) -> Result<(), RandomAccessError> {
        let y = self.w.lock().unwrap_or_else(|e| e.into_inner()).yield_all;
        if y {
            YieldOnce(false).await;
        }
        let mut w = self.w.lock().unwrap_or_else(|e| e.into_inner());
        let k = w.nops;
        w.nops += 1;
        let tag = w.cur_tag;
        if let Some(t) = w.trace.as_mut() {
            t.push((self.id, kind, tag));
        }
        if w.fail_at == Some(k) {
            w.failed_kind = Some((self.id, kind));
            return Err(io_err());
        }
        Ok(())
    }
}

#[async_trait::async_trait]
impl RandomAccess for JournalStore {
    async fn write(&mut self, offset: u64, data: &[u8]) -> Result<(), RandomAccessError> {
        self.point(OpKind::Write).await?;
        let mut w = self.w.lock().unwrap_or_else(|e| e.into_inner());
        let j = JOp::W {
            s: self.id,
            off: offset,
            data: data.to_vec(),
        };
        apply(&mut w.files, &j);
        w.journal.push(j);
        Ok(())
    }
    async fn read(&mut self, offset: u64, length: u64) -> Result<Vec<u8>, RandomAccessError> {
        self.point(OpKind::Read).await?;
        let w = self.w.lock().unwrap_or_else(|e| e.into_inner());
        let f = &w.files[self.id];
        if offset.saturating_add(length) > f.len() as u64 {
            return Err(RandomAccessError::OutOfBounds {
                offset,
                end: Some(offset.saturating_add(length)),
                length: f.len() as u64,
            });
        }
        Ok(f[offset as usize..(offset + length) as usize].to_vec())
    }
    async fn del(&mut self, offset: u64, length: u64) -> Result<(), RandomAccessError> {
        self.point(OpKind::Del).await?;
        let mut w = self.w.lock().unwrap_or_else(|e| e.into_inner());
        let flen = w.files[self.id].len() as u64;
        if offset > flen {
            return Err(RandomAccessError::OutOfBounds {
                offset,
                end: None,
                length: flen,
            });
        }
        if length == 0 {
            return Ok(());
        }
        let j = JOp::D {
            s: self.id,
            off: offset,
            len: length,
        };
        apply(&mut w.files, &j);
        w.journal.push(j);
        Ok(())
    }
    async fn truncate(&mut self, length: u64) -> Result<(), RandomAccessError> {
        self.point(OpKind::Truncate).await?;
        let mut w = self.w.lock().unwrap_or_else(|e| e.into_inner());
        let j = JOp::T {
            s: self.id,
            len: length,
        };
        apply(&mut w.files, &j);
        w.journal.push(j);
        Ok(())
    }
    async fn len(&mut self) -> Result<u64, RandomAccessError> {
        self.point(OpKind::Len).await?;
        let w = self.w.lock().unwrap_or_else(|e| e.into_inner());
        Ok(w.files[self.id].len() as u64)
    }
    async fn is_empty(&mut self) -> Result<bool, RandomAccessError> {
        Ok(self.len().await? == 0)
    }
    async fn sync_all(&mut self) -> Result<(), RandomAccessError> {
        Ok(())
    }
}

pub fn store_id(s: &Store) -> usize {
    match s {
        Store::Tree => TREE,
        Store::Data => DATA,
        Store::Bitfield => BITFIELD,
        Store::Oplog => OPLOG,
    }
}

/// A `Storage` whose four stores are `JournalStore`s over `w`. Uses only the public
/// `Storage::open` callback.
pub async fn storage_async(w: &Shared) -> Storage {
    storage_async_ow(w, false).await
}

/// `overwrite = true`: Storage::open empties the four stores first.
pub async fn storage_async_ow(w: &Shared, overwrite: bool) -> Storage {
    let w = w.clone();
    Storage::open(
        move |s: Store| {
            let w = w.clone();
            Box::pin(async move {
                Ok(Box::new(JournalStore {
                    w,
                    id: store_id(&s),
                }) as Box<dyn StorageTraits + Send>)
            })
        },
        overwrite,
    )
    .await
    .expect("Storage::open over JournalStore cannot fail")
}

pub fn storage(w: &Shared) -> Storage {
    futures::executor::block_on(storage_async(w))
}

pub fn image_of(w: &Shared) -> Image {
    w.lock().unwrap_or_else(|e| e.into_inner()).files.clone()
}

pub fn journal_len(w: &Shared) -> usize {
    w.lock().unwrap_or_else(|e| e.into_inner()).journal.len()
}

pub fn nops(w: &Shared) -> u64 {
    w.lock().unwrap_or_else(|e| e.into_inner()).nops
}

/// 128-bit fingerprint (two independent SipHash-1-3 passes) of arbitrary byte chunks.
pub fn fp128(chunks: &[&[u8]]) -> u128 {
    use std::hash::Hasher;
    #[allow(deprecated)]
    let mut a = std::hash::SipHasher::new_with_keys(0x0123_4567_89ab_cdef, 0xfedc_ba98_7654_3210);
    #[allow(deprecated)]
    let mut b = std::hash::SipHasher::new_with_keys(0x1111_2222_3333_4444, 0x5555_6666_7777_8888);
    for c in chunks {
        a.write_u64(c.len() as u64);
        a.write(c);
        b.write_u64(c.len() as u64);
        b.write(c);
    }
    ((a.finish() as u128) << 64) | b.finish() as u128
}

pub fn fp_image(img: &Image, extra: &[u8]) -> u128 {
    fp128(&[&img[0], &img[1], &img[2], &img[3], extra])
}
