//! E1: stateless, bounded-exhaustive exploration of operation sequences on the real crate.
//!
//! Every sequence over a (model-dependent) alphabet up to a depth is executed from scratch on a
//! fresh world; a visitor is called exactly once for every distinct prefix (on the leaf whose
//! remaining choices are all 0), with the live system, the model before the last op, the
//! storage image before it and the journal position where it started.

use crate::drv::*;
use crate::env::{self, Image};
use serde_json::json;
use std::sync::atomic::{AtomicUsize, Ordering};

#[derive(Debug, Clone, PartialEq, Eq)]
pub struct SysModel {
    pub w: ListModel,
    pub r: Option<ReplicaModel>,
}

impl SysModel {
    pub fn new(with_replica: bool) -> Self {
        SysModel {
            w: ListModel::new(),
            r: if with_replica {
                Some(ReplicaModel::default())
            } else {
                None
            },
        }
    }
    /// Apply an op to the model. Returns false if the op is outside the quantifier.
    pub fn apply(&mut self, op: &Op) -> bool {
        match op {
            Op::RSync(req) => {
                let Some(r) = self.r.as_mut() else { return false };
                if let Some(i) = req.block {
                    if i >= self.w.len() || self.w.blocks[i as usize].is_none() {
                        // cleared on the writer: no proof at all
                        return true;
                    }
                }
                if req.up.is_some() {
                    r.len = self.w.len();
                    r.byte_len = self.w.byte_len();
                }
                if let Some(i) = req.block {
                    r.held.insert(i);
                }
                true
            }
            Op::RClear(s, e) => {
                let Some(r) = self.r.as_mut() else { return false };
                if *s >= r.len || s >= e {
                    return false;
                }
                for i in *s..(*e).min(r.len) {
                    r.held.remove(&i);
                }
                true
            }
            Op::RReopen | Op::RGet(_) | Op::RBad(..) => self.r.is_some(),
            _ => self.w.apply(op),
        }
    }
}

pub struct Sys {
    pub wr: Core,
    pub rp: Option<Core>,
    pub m: SysModel,
    /// ops executed on the writer / replica instance since it was last opened (part of the
    /// exact state key: a live instance is a function of image + calls since open)
    pub since_open_w: Vec<Op>,
    pub since_open_r: Vec<Op>,
    pub altered: Option<fn(&hypercore::Proof, u8) -> Option<hypercore::Proof>>,
    /// the last honest proof handed to the replica (for duplicate-delivery checks)
    pub last_proof: Option<hypercore::Proof>,
}

impl Sys {
    pub fn new(with_replica: bool, cache: CacheCfg) -> Sys {
        let kp = key_pair(KEY_SEED);
        let rp = if with_replica {
            Some(Core::create(public_only(&kp), cache))
        } else {
            None
        };
        Sys {
            wr: Core::create(kp, cache),
            rp,
            m: SysModel::new(with_replica),
            since_open_w: vec![],
            since_open_r: vec![],
            altered: None,
            last_proof: None,
        }
    }

    pub fn target(&mut self, op: &Op) -> &mut Core {
        if op.is_replica_op() {
            self.rp.as_mut().expect("replica")
        } else {
            &mut self.wr
        }
    }
    pub fn target_ref(&self, op: &Op) -> &Core {
        if op.is_replica_op() {
            self.rp.as_ref().expect("replica")
        } else {
            &self.wr
        }
    }

    /// Execute on the real code; then advance the model (independently of the result).
    pub fn exec(&mut self, op: &Op) -> Out<OpRes> {
        let out = self.exec_real(op);
        self.m.apply(op);
        match op {
            Op::Reopen => self.since_open_w.clear(),
            Op::RReopen => self.since_open_r.clear(),
            o if o.is_replica_op() => self.since_open_r.push(o.clone()),
            o => self.since_open_w.push(o.clone()),
        }
        out
    }

    pub fn exec_real(&mut self, op: &Op) -> Out<OpRes> {
        match op {
            Op::RSync(req) | Op::RBad(req, _) => {
                let Some(rp) = self.rp.as_mut() else {
                    return Out::Err("harness: no replica".into());
                };
                if rp.core.is_none() || self.wr.core.is_none() {
                    return Out::Err("harness: core not open".into());
                }
                let creq = match concretize(rp.c(), req) {
                    Out::Ok(c) => c,
                    Out::Err(e) => return Out::Err(e),
                    Out::Panic(p) => return Out::Panic(p),
                };
                let proof = match create_proof(self.wr.c(), &creq) {
                    Out::Ok(p) => p,
                    Out::Err(e) => return Out::Err(format!("create_proof: {e}")),
                    Out::Panic(p) => return Out::Panic(format!("create_proof: {p}")),
                };
                let Some(mut proof) = proof else {
                    return Out::Ok(OpRes::Synced {
                        proof: false,
                        applied: None,
                    });
                };
                if let Op::RBad(_, a) = op {
                    let f = self.altered.expect("alteration function installed");
                    match f(&proof, *a) {
                        Some(p) => proof = p,
                        None => return Out::Err("harness: alteration not applicable".into()),
                    }
                }
                if matches!(op, Op::RSync(_)) {
                    self.last_proof = Some(proof.clone());
                }
                match apply_proof(rp.c(), &proof) {
                    Out::Ok(b) => Out::Ok(OpRes::Synced {
                        proof: true,
                        applied: Some(Ok(b)),
                    }),
                    Out::Err(e) => Out::Ok(OpRes::Synced {
                        proof: true,
                        applied: Some(Err(e)),
                    }),
                    Out::Panic(p) => Out::Panic(format!("verify_and_apply_proof: {p}")),
                }
            }
            Op::RReopen => {
                let rp = self.rp.as_mut().expect("replica");
                rp.reopen().map(|_| OpRes::Unit)
            }
            Op::RGet(i) => {
                let rp = self.rp.as_mut().expect("replica");
                if rp.core.is_none() {
                    return Out::Err("harness: core not open".into());
                }
                guard(rp.c().get(*i)).map(OpRes::Got)
            }
            Op::RClear(s, e) => {
                let rp = self.rp.as_mut().expect("replica");
                if rp.core.is_none() {
                    return Out::Err("harness: core not open".into());
                }
                guard(rp.c().clear(*s, *e)).map(|_| OpRes::Unit)
            }
            _ => {
                let n = self.m.w.len();
                exec_writer(&mut self.wr, op, n)
            }
        }
    }

    /// Exact state key of the whole system.
    pub fn fingerprint(&self) -> u128 {
        let wi = self.wr.image();
        let so = format!("{:?}|{:?}", self.since_open_w, self.since_open_r);
        match &self.rp {
            Some(rp) => {
                let ri = rp.image();
                env::fp128(&[
                    &wi[0], &wi[1], &wi[2], &wi[3], &ri[0], &ri[1], &ri[2], &ri[3], so.as_bytes(),
                ])
            }
            None => env::fp_image(&wi, so.as_bytes()),
        }
    }
}

/// What the model expects the call to return. None = anything acceptable.
pub fn check_result(op: &Op, out: &Out<OpRes>, before: &SysModel, after: &SysModel) -> Option<(String, String)> {
    let bad = |clause: &str, exp: String| Some((clause.to_string(), format!("{} returned {} expected {}", op.brief(), out.brief(), exp)));
    if let Out::Panic(_) = out {
        return bad("panic", "a value or an error".into());
    }
    match op {
        Op::Append(_) | Op::Batch(_) | Op::BatchN(_) => {
            if before.w.writable {
                let exp = OpRes::Appended {
                    length: after.w.len(),
                    byte_length: after.w.byte_len(),
                };
                match out {
                    Out::Ok(r) if *r == exp => None,
                    _ => bad("append-outcome", format!("{exp:?}")),
                }
            } else {
                match out {
                    Out::Err(e) if e.to_lowercase().contains("not writable") => None,
                    _ => bad("not-writable", "Err(not writable)".into()),
                }
            }
        }
        // A clear on a (sparse) replica may return Err after it has logged and applied the clear:
        // widening the hole in the data store needs byte offsets of neighbours whose tree nodes
        // the replica never received. No listed property promises more, so only a panic is
        // rejected (checked above) and the model applies the clear either way.
        Op::RClear(..) => None,
        Op::Clear(..) | Op::Reopen | Op::RReopen => match out {
            Out::Ok(OpRes::Unit) => None,
            _ => bad(if matches!(op, Op::Clear(..)) { "clear-result" } else { "open-fails" }, "Ok".into()),
        },
        Op::MakeReadOnly => match out {
            Out::Ok(OpRes::Bool(b)) if *b == before.w.writable => None,
            _ => bad("make-read-only-result", format!("Ok({})", before.w.writable)),
        },
        Op::Get(i) => {
            let exp = if *i < before.w.len() {
                before.w.blocks[*i as usize].clone()
            } else {
                None
            };
            match out {
                Out::Ok(OpRes::Got(g)) if *g == exp => None,
                _ => bad("get", format!("{:?}", exp.map(|v| v.len()))),
            }
        }
        Op::RGet(i) => {
            let r = before.r.as_ref().unwrap();
            let exp = if r.held.contains(i) {
                Some(before.w.orig[*i as usize].clone())
            } else {
                None
            };
            match out {
                Out::Ok(OpRes::Got(g)) if *g == exp => None,
                _ => bad("get", format!("{:?}", exp.map(|v| v.len()))),
            }
        }
        Op::RSync(req) => {
            let cleared = req
                .block
                .map(|i| i >= before.w.len() || before.w.blocks[i as usize].is_none())
                .unwrap_or(false);
            match out {
                Out::Ok(OpRes::Synced { proof: false, applied: None }) if cleared => None,
                Out::Ok(OpRes::Synced { proof: true, applied: Some(Ok(true)) }) if !cleared => None,
                Out::Ok(OpRes::Synced { proof: true, .. }) if cleared => {
                    bad("proof-for-cleared-block", "no proof".into())
                }
                Out::Ok(OpRes::Synced { proof: false, .. }) => bad("honest-no-proof", "a proof".into()),
                Out::Ok(OpRes::Synced { applied: Some(Ok(false)), .. }) => {
                    bad("honest-proof-refused", "accepted".into())
                }
                Out::Ok(OpRes::Synced { applied: Some(Err(_)), .. }) => {
                    bad("honest-proof-refused", "accepted".into())
                }
                Out::Err(e) if e.starts_with("create_proof") => bad("honest-no-proof", "a proof".into()),
                _ => bad("honest-sync", "accepted".into()),
            }
        }
        Op::RBad(..) => match out {
            Out::Ok(OpRes::Synced { proof: true, applied: Some(Ok(false)) })
            | Out::Ok(OpRes::Synced { proof: true, applied: Some(Err(_)) }) => None,
            Out::Ok(OpRes::Synced { proof: false, .. }) => None,
            _ => bad("altered-proof-accepted", "refusal".into()),
        },
    }
}

pub struct Cx<'a> {
    /// executed ops including the one just run (fixed prefix included)
    pub hist: &'a [Op],
    pub sys: &'a mut Sys,
    pub before: &'a SysModel,
    pub out: &'a Out<OpRes>,
    /// image of the targeted core before the op
    pub img_before: &'a Image,
    pub jstart: usize,
    pub nops_start: u64,
    /// storage-operation count of the writer's world before the op (for faults on the serving side)
    pub wr_nops_start: u64,
    /// number of ops of the fixed prefix at the start of hist
    pub prefix_len: usize,
}

impl<'a> Cx<'a> {
    pub fn op(&self) -> &Op {
        self.hist.last().unwrap()
    }
    pub fn case(&self, prop: &str, what: &str) -> serde_json::Value {
        json!({"prop": prop, "what": what, "hist": self.hist, "brief": hist_brief(self.hist)})
    }
}

pub trait Visitor: Send {
    fn visit(&mut self, cx: &mut Cx<'_>);
}

pub struct E1<'a> {
    pub prop: &'static str,
    pub depth: usize,
    pub with_replica: bool,
    pub prefix: Vec<Op>,
    pub alphabet: &'a (dyn Fn(&SysModel, usize) -> Vec<Op> + Sync),
    pub threads: usize,
    pub cache: CacheCfg,
    pub altered: Option<fn(&hypercore::Proof, u8) -> Option<hypercore::Proof>>,
}

struct Item {
    ops: Vec<Op>,
    choices: Vec<usize>,
    model: SysModel,
}

impl<'a> E1<'a> {
    fn prefix_model(&self) -> SysModel {
        let mut m = SysModel::new(self.with_replica);
        for op in &self.prefix {
            m.apply(op);
        }
        m
    }

    fn expand(&self, items: Vec<Item>) -> Vec<Item> {
        let mut out = vec![];
        for it in items {
            let alpha = (self.alphabet)(&it.model, it.ops.len());
            if it.ops.len() >= self.depth || alpha.is_empty() {
                out.push(it);
                continue;
            }
            for (ci, op) in alpha.into_iter().enumerate() {
                let mut m = it.model.clone();
                m.apply(&op);
                let mut ops = it.ops.clone();
                ops.push(op);
                let mut ch = it.choices.clone();
                ch.push(ci);
                out.push(Item {
                    ops,
                    choices: ch,
                    model: m,
                });
            }
        }
        out
    }

    /// Returns the visitors (one per thread) and the number of leaf executions.
    pub fn run<V: Visitor>(&self, mk: &(dyn Fn() -> V + Sync)) -> (Vec<V>, u64) {
        let mut items = vec![Item {
            ops: vec![],
            choices: vec![],
            model: self.prefix_model(),
        }];
        for _ in 0..2.min(self.depth) {
            items = self.expand(items);
        }
        let next = AtomicUsize::new(0);
        let leaves = std::sync::atomic::AtomicU64::new(0);
        let items = &items;
        let vs = std::thread::scope(|s| {
            let hs: Vec<_> = (0..self.threads.max(1))
                .map(|_| {
                    s.spawn(|| {
                        let mut v = mk();
                        let mut n = 0u64;
                        loop {
                            let i = next.fetch_add(1, Ordering::Relaxed);
                            if i >= items.len() {
                                break;
                            }
                            let it = &items[i];
                            let mut ops = it.ops.clone();
                            let mut ch = it.choices.clone();
                            self.rec(&mut ops, &mut ch, &it.model, &mut v, &mut n);
                        }
                        leaves.fetch_add(n, Ordering::Relaxed);
                        crate::sup::clear_case();
                        v
                    })
                })
                .collect();
            hs.into_iter().map(|h| h.join().expect("worker thread")).collect::<Vec<V>>()
        });
        (vs, leaves.load(Ordering::Relaxed))
    }

    fn rec<V: Visitor>(&self, ops: &mut Vec<Op>, ch: &mut Vec<usize>, model: &SysModel, v: &mut V, n: &mut u64) {
        let alpha = if ops.len() >= self.depth {
            vec![]
        } else {
            (self.alphabet)(model, ops.len())
        };
        if alpha.is_empty() {
            *n += 1;
            self.execute(ops, ch, v);
            return;
        }
        for (ci, op) in alpha.into_iter().enumerate() {
            let mut m = model.clone();
            m.apply(&op);
            ops.push(op);
            ch.push(ci);
            self.rec(ops, ch, &m, v, n);
            ops.pop();
            ch.pop();
        }
    }

    pub fn execute<V: Visitor>(&self, ops: &[Op], ch: &[usize], v: &mut V) {
        let mut full: Vec<Op> = self.prefix.clone();
        full.extend_from_slice(ops);
        crate::sup::set_case(
            &json!({"prop": self.prop, "what": "E1", "hist": full, "replica": self.with_replica}).to_string(),
        );
        let mut sys = Sys::new(self.with_replica, self.cache);
        sys.altered = self.altered;
        for op in &self.prefix {
            let o = sys.exec(op);
            if !o.is_ok() {
                // a broken prefix is reported by the property that explores it from the root
                return;
            }
        }
        let pl = self.prefix.len();
        for k in 0..ops.len() {
            crate::sup::tick();
            let first = ch[k + 1..].iter().all(|c| *c == 0);
            let op = &ops[k];
            if !first {
                let o = sys.exec(op);
                if matches!(o, Out::Panic(_)) || (matches!(o, Out::Err(_)) && !expected_err(op, &sys.m)) {
                    return;
                }
                continue;
            }
            let before = sys.m.clone();
            let (img_before, jstart, nops_start) = {
                let t = sys.target_ref(op);
                let w = t.w.lock().unwrap_or_else(|e| e.into_inner());
                (w.files.clone(), w.journal.len(), w.nops)
            };
            let wr_nops_start = env::nops(&sys.wr.w);
            let out = sys.exec(op);
            let mut cx = Cx {
                hist: &full[..pl + k + 1],
                sys: &mut sys,
                before: &before,
                out: &out,
                img_before: &img_before,
                jstart,
                nops_start,
                wr_nops_start,
                prefix_len: pl,
            };
            v.visit(&mut cx);
            if matches!(out, Out::Panic(_)) || (matches!(out, Out::Err(_)) && !expected_err(op, &sys.m)) {
                return;
            }
        }
    }
}

fn expected_err(op: &Op, after: &SysModel) -> bool {
    (matches!(op, Op::Append(_) | Op::Batch(_) | Op::BatchN(_)) && !after.w.writable) || matches!(op, Op::RClear(..))
}

/// Re-run one history outside the explorer (used by replays); calls the visitor on the last op.
pub fn replay_history<V: Visitor>(
    hist: &[Op],
    with_replica: bool,
    cache: CacheCfg,
    altered: Option<fn(&hypercore::Proof, u8) -> Option<hypercore::Proof>>,
    v: &mut V,
) {
    let alpha = |_: &SysModel, _: usize| -> Vec<Op> { vec![] };
    let e = E1 {
        prop: "replay",
        depth: hist.len(),
        with_replica,
        prefix: vec![],
        alphabet: &alpha,
        threads: 1,
        cache,
        altered,
    };
    let ch = vec![0usize; hist.len()];
    // visit only the last op: emulate by making all earlier steps non-first
    let mut ch2 = ch.clone();
    if hist.len() >= 2 {
        // mark: step k is first iff ch[k+1..] all zero; put a 1 at the last position so that
        // only k = len-1 is first
        *ch2.last_mut().unwrap() = 1;
    }
    e.execute(hist, &ch2, v);
}
