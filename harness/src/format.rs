//! Independent reference for the JavaScript Hypercore 10 on-disk layout: a reader that
//! reconstructs the log state from the four files, and encoders used to lay out synthetic
//! JS-valid storage. Shares no code with the crate under test (own CRC-32, own
//! compact-encoding, own flat-tree arithmetic).

use crate::cenc::{self, Dec, DecErr, RNodeMsg};
use crate::env::{Image, BITFIELD, DATA, OPLOG, TREE};
use crate::scheme::{self, crc32};
use std::collections::{BTreeMap, BTreeSet};

pub const SLOT: usize = 4096;
pub const ENTRIES: usize = 8192;

#[derive(Debug, Clone, PartialEq, Eq)]
pub struct RHeader {
    pub key: [u8; 32],
    pub public_key: [u8; 32],
    pub secret_key: Option<[u8; 64]>,
    pub fork: u64,
    pub length: u64,
    pub root_hash: Vec<u8>,
    pub signature: Vec<u8>,
    pub contiguous_length: u64,
}

#[derive(Debug, Clone, PartialEq, Eq, Default)]
pub struct REntry {
    pub nodes: Vec<RNodeMsg>,
    /// (fork, ancestors, length, signature)
    pub upgrade: Option<(u64, u64, u64, Vec<u8>)>,
    /// (drop, start, length)
    pub bitfield: Option<(bool, u64, u64)>,
}

#[derive(Debug)]
pub struct Record<'a> {
    pub payload: &'a [u8],
    pub header_bit: bool,
    pub partial: bool,
    pub total: usize,
}

/// One framed record at the start of `buf`, or None if there is no valid record.
pub fn read_record(buf: &[u8]) -> Option<Record<'_>> {
    if buf.len() < 8 {
        return None;
    }
    let crc = u32::from_le_bytes(buf[0..4].try_into().unwrap());
    let word = u32::from_le_bytes(buf[4..8].try_into().unwrap());
    let len = (word >> 2) as usize;
    if len == 0 || buf.len() < 8 + len {
        return None;
    }
    if crc32(&buf[4..8 + len]) != crc {
        return None;
    }
    Some(Record {
        payload: &buf[8..8 + len],
        header_bit: word & 1 == 1,
        partial: word & 2 == 2,
        total: 8 + len,
    })
}

pub fn frame(payload: &[u8], header_bit: bool, partial: bool) -> Vec<u8> {
    let word: u32 = ((payload.len() as u32) << 2) | if partial { 2 } else { 0 } | if header_bit { 1 } else { 0 };
    let mut body = word.to_le_bytes().to_vec();
    body.extend_from_slice(payload);
    let mut out = crc32(&body).to_le_bytes().to_vec();
    out.extend_from_slice(&body);
    out
}

pub fn decode_header(p: &[u8]) -> Result<RHeader, DecErr> {
    let mut d = Dec::new(p);
    let _version = d.u8()?;
    let _flags = d.u8()?;
    let mut key = [0u8; 32];
    key.copy_from_slice(d.take(32)?);
    // manifest: version, hash id, type, signer {signature id, namespace 32, public key 32}
    let mv = d.u8()?;
    let _hash = d.u8()?;
    let _ty = d.u8()?;
    let _sig = d.u8()?;
    let _ns = d.take(32)?;
    let _mpk = d.take(32)?;
    if mv != 0 {
        return Err(DecErr("manifest version".into()));
    }
    // key pair: buffer public, buffer secret (64 bytes = seed || public) or empty
    let pk = d.buf()?;
    if pk.len() != 32 {
        return Err(DecErr("public key length".into()));
    }
    let mut public_key = [0u8; 32];
    public_key.copy_from_slice(pk);
    let sk = d.buf()?;
    let secret_key = match sk.len() {
        0 => None,
        64 => {
            let mut s = [0u8; 64];
            s.copy_from_slice(sk);
            Some(s)
        }
        _ => return Err(DecErr("secret key length".into())),
    };
    // user data array (never produced by the crate)
    let nud = d.uint()?;
    for _ in 0..nud {
        let _k = d.buf()?;
        let _v = d.buf()?;
    }
    let fork = d.uint()?;
    let length = d.uint()?;
    let root_hash = d.buf()?.to_vec();
    let signature = d.buf()?.to_vec();
    let nre = d.uint()?;
    for _ in 0..nre {
        let _from = d.uint()?;
        let _to = d.uint()?;
        let _anc = d.uint()?;
    }
    let contiguous_length = d.uint()?;
    Ok(RHeader {
        key,
        public_key,
        secret_key,
        fork,
        length,
        root_hash,
        signature,
        contiguous_length,
    })
}

pub const DEFAULT_NAMESPACE: [u8; 32] = [
    0x41, 0x44, 0xEE, 0xA5, 0x31, 0xE4, 0x83, 0xD5, 0x4E, 0x0C, 0x14, 0xF4, 0xCA, 0x68, 0xE0, 0x64, 0x4F, 0x35,
    0x53, 0x43, 0xFF, 0x6F, 0xCB, 0x0F, 0x00, 0x52, 0x00, 0xE1, 0x2C, 0xD7, 0x47, 0xCB,
];

pub fn encode_header(h: &RHeader) -> Vec<u8> {
    let mut o = vec![1u8, 2 | 4];
    o.extend_from_slice(&h.key);
    o.extend_from_slice(&[0, 0, 1, 0]);
    o.extend_from_slice(&DEFAULT_NAMESPACE);
    o.extend_from_slice(&h.public_key);
    cenc::put_buf(&mut o, &h.public_key);
    match &h.secret_key {
        Some(s) => cenc::put_buf(&mut o, s),
        None => cenc::put_uint(&mut o, 0),
    }
    cenc::put_uint(&mut o, 0); // user data
    cenc::put_uint(&mut o, h.fork);
    cenc::put_uint(&mut o, h.length);
    cenc::put_buf(&mut o, &h.root_hash);
    cenc::put_buf(&mut o, &h.signature);
    cenc::put_uint(&mut o, 0); // reorgs
    cenc::put_uint(&mut o, h.contiguous_length);
    o
}

pub fn decode_entry(p: &[u8]) -> Result<REntry, DecErr> {
    let mut d = Dec::new(p);
    let flags = d.u8()?;
    let mut e = REntry::default();
    if flags & 1 != 0 {
        let n = d.uint()?;
        for _ in 0..n {
            let _k = d.buf()?;
            let _v = d.buf()?;
        }
    }
    if flags & 2 != 0 {
        e.nodes = cenc::dec_nodes(&mut d)?;
    }
    if flags & 4 != 0 {
        let fork = d.uint()?;
        let anc = d.uint()?;
        let len = d.uint()?;
        let sig = d.buf()?.to_vec();
        e.upgrade = Some((fork, anc, len, sig));
    }
    if flags & 8 != 0 {
        let f = d.u8()?;
        let start = d.uint()?;
        let len = d.uint()?;
        e.bitfield = Some((f & 1 == 1, start, len));
    }
    if d.rest() != 0 {
        return Err(DecErr(format!("{} trailing bytes in entry", d.rest())));
    }
    Ok(e)
}

pub fn encode_entry(e: &REntry) -> Vec<u8> {
    let mut flags = 0u8;
    if !e.nodes.is_empty() {
        flags |= 2;
    }
    if e.upgrade.is_some() {
        flags |= 4;
    }
    if e.bitfield.is_some() {
        flags |= 8;
    }
    let mut o = vec![flags];
    if !e.nodes.is_empty() {
        cenc::enc_nodes(&mut o, &e.nodes);
    }
    if let Some((fork, anc, len, sig)) = &e.upgrade {
        cenc::put_uint(&mut o, *fork);
        cenc::put_uint(&mut o, *anc);
        cenc::put_uint(&mut o, *len);
        cenc::put_buf(&mut o, sig);
    }
    if let Some((drop, start, len)) = &e.bitfield {
        o.push(if *drop { 1 } else { 0 });
        cenc::put_uint(&mut o, *start);
        cenc::put_uint(&mut o, *len);
    }
    o
}

#[derive(Debug, Clone, PartialEq, Eq)]
pub struct DiskState {
    pub header: RHeader,
    pub header_slot: usize,
    pub header_bit: bool,
    pub n_entries: usize,
    pub entry_kinds: Vec<String>,
    pub fork: u64,
    pub length: u64,
    pub byte_length: Option<u64>,
    pub root_hash: Vec<u8>,
    pub signature: Vec<u8>,
    pub present: BTreeSet<u64>,
    pub nodes: BTreeMap<u64, (u64, [u8; 32])>,
    pub blocks: BTreeMap<u64, Result<Vec<u8>, String>>,
}

pub fn entry_kind(e: &REntry) -> String {
    match (e.nodes.is_empty(), e.upgrade.is_some(), e.bitfield) {
        (false, true, Some((false, ..))) => "append".into(),
        (true, false, Some((true, ..))) => "clear".into(),
        (_, false, Some((false, ..))) => "block-only".into(),
        (false, true, None) => "upgrade-only".into(),
        (false, false, None) => "nodes-only".into(),
        (a, b, c) => format!("other(nodes={},upgrade={},bitfield={:?})", !a, b, c),
    }
}

/// Byte offset of the first byte under tree node `index`, from known node sizes only.
pub fn byte_offset(nodes: &BTreeMap<u64, (u64, [u8; 32])>, length: u64, index: u64) -> Result<u64, String> {
    let leaf = scheme::left_span(index);
    let mut off = 0u64;
    for r in scheme::full_roots(length) {
        if scheme::right_span(r) < leaf {
            off += nodes.get(&r).ok_or(format!("root {r} unknown"))?.0;
            continue;
        }
        // descend from root r to `index` (which lies entirely under one child at every level)
        if scheme::right_span(index) > scheme::right_span(r) {
            return Err(format!("node {index} not under root {r}"));
        }
        let mut cur = r;
        while cur != index {
            let Some(l) = scheme::left_child(cur) else {
                return Err(format!("node {index} not under root {r}"));
            };
            if leaf <= scheme::right_span(l) {
                cur = l;
            } else {
                off += nodes.get(&l).ok_or(format!("node {l} unknown"))?.0;
                cur = scheme::right_child(cur).unwrap();
            }
        }
        return Ok(off);
    }
    Err(format!("node {index} outside the tree of length {length}"))
}

/// The reader: knows only the layout.
pub fn read_storage(img: &Image) -> Result<DiskState, String> {
    let oplog = &img[OPLOG];
    let s0 = if oplog.len() >= 8 { read_record(&oplog[..oplog.len().min(SLOT)]) } else { None };
    let s1 = if oplog.len() > SLOT { read_record(&oplog[SLOT..oplog.len().min(2 * SLOT)]) } else { None };
    let (rec, slot, bit) = match (&s0, &s1) {
        (Some(a), Some(b)) => {
            let bit = a.header_bit != b.header_bit;
            if bit {
                (b, 1, bit)
            } else {
                (a, 0, bit)
            }
        }
        (Some(a), None) => (a, 0, false),
        (None, Some(b)) => (b, 1, true),
        (None, None) => return Err("no valid header slot".into()),
    };
    let header = decode_header(rec.payload).map_err(|e| format!("header: {}", e.0))?;
    // entries
    let mut entries: Vec<(REntry, bool)> = vec![];
    let mut pos = ENTRIES;
    while pos < oplog.len() {
        let Some(r) = read_record(&oplog[pos..]) else { break };
        if r.header_bit != bit {
            break;
        }
        let e = decode_entry(r.payload).map_err(|e| format!("entry at {pos}: {}", e.0))?;
        entries.push((e, r.partial));
        pos += r.total;
    }
    while entries.last().map(|e| e.1).unwrap_or(false) {
        entries.pop();
    }
    // flushed state
    let mut nodes: BTreeMap<u64, (u64, [u8; 32])> = BTreeMap::new();
    let tree = &img[TREE];
    for i in 0..tree.len() / 40 {
        let rec = &tree[i * 40..i * 40 + 40];
        if rec.iter().all(|b| *b == 0) {
            continue;
        }
        let size = u64::from_le_bytes(rec[..8].try_into().unwrap());
        let mut h = [0u8; 32];
        h.copy_from_slice(&rec[8..]);
        if h.iter().all(|b| *b == 0) {
            continue;
        }
        nodes.insert(i as u64, (size, h));
    }
    let mut present: BTreeSet<u64> = BTreeSet::new();
    let bf = &img[BITFIELD];
    for (byte_i, b) in bf.iter().enumerate() {
        if *b != 0 {
            for k in 0..8 {
                if b >> k & 1 == 1 {
                    present.insert(byte_i as u64 * 8 + k);
                }
            }
        }
    }
    let mut fork = header.fork;
    let mut length = header.length;
    let mut root_hash = header.root_hash.clone();
    let mut signature = header.signature.clone();
    let mut kinds = vec![];
    for (e, _) in &entries {
        kinds.push(entry_kind(e));
        for n in &e.nodes {
            nodes.insert(n.index, (n.size, n.hash));
        }
        if let Some((drop, start, len)) = e.bitfield {
            for i in start..start + len {
                if drop {
                    present.remove(&i);
                } else {
                    present.insert(i);
                }
            }
        }
        if let Some((f, _anc, len, sig)) = &e.upgrade {
            fork = *f;
            length = *len;
            signature = sig.clone();
            root_hash = vec![]; // recomputed below
        }
    }
    let roots = scheme::full_roots(length);
    let byte_length = roots.iter().map(|r| nodes.get(r).map(|n| n.0)).sum::<Option<u64>>();
    if root_hash.is_empty() && length > 0 {
        if let Some(rn) = roots
            .iter()
            .map(|r| nodes.get(r).map(|n| scheme::RNode { index: *r, size: n.0, hash: n.1 }))
            .collect::<Option<Vec<_>>>()
        {
            root_hash = scheme::tree_hash(&rn).to_vec();
        }
    }
    let mut blocks = BTreeMap::new();
    for &i in present.iter().filter(|i| **i < length) {
        let r = (|| -> Result<Vec<u8>, String> {
            let size = nodes.get(&(2 * i)).ok_or(format!("leaf node {} unknown", 2 * i))?.0;
            let off = byte_offset(&nodes, length, 2 * i)?;
            let d = &img[DATA];
            if size == 0 {
                return Ok(vec![]);
            }
            if (off + size) as usize > d.len() {
                return Err(format!("data store too short for block {i}: need {}..{}, have {}", off, off + size, d.len()));
            }
            Ok(d[off as usize..(off + size) as usize].to_vec())
        })();
        blocks.insert(i, r);
    }
    Ok(DiskState {
        header_slot: slot,
        header_bit: bit,
        n_entries: entries.len(),
        entry_kinds: kinds,
        fork,
        length,
        byte_length,
        root_hash,
        signature,
        present,
        nodes,
        blocks,
        header,
    })
}

// ---- laying out synthetic JS-valid storage -------------------------------------------------

pub fn set_bits(bf: &mut Vec<u8>, start: u64, len: u64, v: bool) {
    for i in start..start + len {
        let byte = (i / 8) as usize;
        // pages are written whole (4096 bytes)
        let need = (byte / 4096 + 1) * 4096;
        if bf.len() < need {
            bf.resize(need, 0);
        }
        if v {
            bf[byte] |= 1 << (i % 8);
        } else {
            bf[byte] &= !(1 << (i % 8));
        }
    }
}

pub fn put_tree_node(tree: &mut Vec<u8>, n: &scheme::RNode) {
    let off = n.index as usize * 40;
    if tree.len() < off + 40 {
        tree.resize(off + 40, 0);
    }
    tree[off..off + 8].copy_from_slice(&n.size.to_le_bytes());
    tree[off + 8..off + 40].copy_from_slice(&n.hash);
}

pub fn sha256_hex(b: &[u8]) -> String {
    use sha2::Digest;
    let h = sha2::Sha256::digest(b);
    h.iter().map(|x| format!("{x:02X}")).collect()
}
