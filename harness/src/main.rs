//! hcverif — bounded-exhaustive exploration of the real `hypercore` crate.
//! Usage: hcverif <C01..C15> <quick|thorough> | --replay <file> | --replay-case <ID> <json>

#![allow(dead_code)]
mod alter;
mod cenc;
mod drv;
mod env;
mod explore;
mod format;
mod props;
mod report;
mod scheme;
mod sup;

use serde_json::Value;

struct PropDef {
    id: &'static str,
    level: &'static str,
    run: fn(&str) -> i32,
    replay: fn(&Value, &report::Report),
}

fn props() -> Vec<PropDef> {
    macro_rules! p {
        ($id:expr, $lvl:expr, $m:ident) => {
            PropDef {
                id: $id,
                level: $lvl,
                run: props::$m::run,
                replay: props::$m::replay,
            }
        };
    }
    vec![
        p!("C01", "model_checking", c01),
        p!("C02", "fault_enumeration", c02),
        p!("C03", "model_checking", c03),
        p!("C04", "exploration", c04),
        p!("C05", "exploration", c05),
        p!("C06", "exploration", c06),
        p!("C07", "fault_enumeration", c07),
        p!("C08", "exploration", c08),
        p!("C09", "exploration", c09),
        p!("C10", "fault_enumeration", c10),
        p!("C11", "exploration", c11),
        p!("C12", "fault_enumeration", c12),
        p!("C13", "exploration", c13),
        p!("C14", "exploration", c14),
        p!("C15", "model_checking", c15),
    ]
}

fn find(id: &str) -> Option<PropDef> {
    props().into_iter().find(|p| p.id == id)
}

fn replay_value(id: &str, case: &Value) -> i32 {
    let Some(p) = find(id) else {
        eprintln!("unknown property {id}");
        return 2;
    };
    let rep = report::Report::new(id, "quick", p.level);
    if case["what"].as_str() == Some("writer-setup") {
        let hist: Vec<drv::Op> = serde_json::from_value(case["hist"].clone()).unwrap_or_default();
        // in a supervised child a failing set-up aborts (see sup::setup_failed); here it panics
        return match drv::guard_sync(|| {
            let _ = props::c03::build_writer(&hist);
        }) {
            drv::Out::Ok(()) => {
                println!("not reproduced: the set-up history works on this tree");
                0
            }
            o => {
                println!("REPRODUCED property={} clause=writer-setup :: a plain writer history fails: {}", id, o.brief());
                1
            }
        };
    }
    (p.replay)(case, &rep);
    let vs = rep.violations();
    for v in &vs {
        println!("REPRODUCED property={} clause={} sig=[{}] :: {}", id, v.clause, v.sig, v.detail);
    }
    if vs.is_empty() {
        println!("not reproduced: the case satisfies the property on this tree");
        0
    } else {
        1
    }
}

fn main() {
    let args: Vec<String> = std::env::args().skip(1).collect();
    drv::install_panic_hook();
    if args.is_empty() {
        eprintln!("usage: hcverif <ID> <quick|thorough> | --replay <file> | --replay-case <ID> <json>");
        std::process::exit(2);
    }
    if args[0] == "--replay" {
        let text = std::fs::read_to_string(&args[1]).expect("replay file");
        let v: Value = serde_json::from_str(&text).expect("replay json");
        let id = v["property"].as_str().expect("property").to_string();
        std::process::exit(replay_value(&id, &v["case"]));
    }
    if args[0] == "--replay-case" {
        sup::child_init();
        sup::set_current_prop(&args[1]);
        sup::set_case("{}");
        let v: Value = serde_json::from_str(&args[2]).expect("case json");
        std::process::exit(replay_value(&args[1], &v));
    }
    let id = args[0].clone();
    sup::set_current_prop(&id);
    let tier = args.get(1).cloned().unwrap_or_else(|| "quick".into());
    let Some(p) = find(&id) else {
        eprintln!("unknown property {id}");
        std::process::exit(2);
    };
    if std::env::var("HCVERIF_CHILD").is_ok() {
        sup::child_init();
        std::process::exit((p.run)(&tier));
    }
    std::process::exit(sup::supervise(&id, &tier, p.level, &args));
}
