//! C01 — log contents equal an append-only list model, across close and reopen.
//! Engine E1 on the real crate; oracle = list model; every visited state is observed.

use super::common::*;
use crate::drv::*;
use crate::explore::*;
use crate::report::{FpSet, Report, Stats};
use serde_json::{json, Value};

pub struct Family {
    pub name: &'static str,
    pub depth: usize,
    pub prefix: Vec<Op>,
    pub alpha: Alpha,
    pub big: bool,
}

fn p1(n: u32) -> Blk {
    Blk::P(n, 0)
}

/// Seed states: 9–17 blocks with a cleared hole and 0–3 unflushed entries.
pub fn seed_prefixes(quick: bool) -> Vec<Vec<Op>> {
    let mut seeds = vec![];
    let lens: &[u32] = if quick { &[9, 16] } else { &[9, 10, 15, 16, 17] };
    for &n in lens {
        for unflushed in 0..=3u32 {
            if quick && unflushed % 2 == 1 {
                continue;
            }
            // batch of n blocks (first op on the instance => flushed), clear a hole, reopen so
            // that the next ops start a new cadence; then `unflushed` entries after a flush
            let mut h = vec![
                Op::Batch((0..n).map(|i| p1(1 + (i % 3))).collect()),
                Op::Clear(2, 4),
                Op::Reopen,
                Op::Append(p1(2)), // first op on the new instance: flushes
            ];
            for k in 0..unflushed {
                if k == 1 {
                    h.push(Op::Clear(n as u64 - 1, n as u64));
                } else {
                    h.push(Op::Append(p1(1)));
                }
            }
            seeds.push(h);
        }
    }
    seeds
}

pub fn families(tier: &str) -> Vec<Family> {
    let quick = tier == "quick";
    let mut f = vec![];
    f.push(Family {
        name: "full-alphabet",
        depth: if quick { 3 } else { 4 },
        prefix: vec![],
        alpha: Alpha::full(),
        big: false,
    });
    f.push(Family {
        name: "medium-alphabet",
        depth: if quick { 5 } else { 6 },
        prefix: vec![],
        alpha: Alpha::medium(),
        big: false,
    });
    f.push(Family {
        name: "small-alphabet",
        depth: if quick { 7 } else { 9 },
        prefix: vec![],
        alpha: Alpha::small(),
        big: false,
    });
    // (i) header-bit cycle / cadence phases
    f.push(Family {
        name: "append-reopen",
        depth: if quick { 12 } else { 15 },
        prefix: vec![],
        alpha: Alpha {
            sizes: vec![1],
            batches: vec![],
            clears: Clears::None,
            reopen: true,
            make_read_only: false,
            max_len: u64::MAX,
            far_clear: false,
        },
        big: false,
    });
    // (i') 32-bit bitfield word boundary: a log of 30 flushed blocks, then growth across index 32
    // and clears that start in one word and end in the next (or far beyond the length)
    f.push(Family {
        name: "word-boundary (prefix: batch of 30, reopen)",
        depth: if quick { 4 } else { 5 },
        prefix: vec![Op::Batch((0..30).map(|i| p1(1 + (i % 3))).collect()), Op::Reopen],
        alpha: Alpha {
            sizes: vec![1],
            batches: vec![vec![2, 0, 1]],
            clears: Clears::Two,
            reopen: true,
            make_read_only: false,
            max_len: u64::MAX,
            far_clear: true,
        },
        big: false,
    });
    // (ii) seed states
    for (i, p) in seed_prefixes(quick).into_iter().enumerate() {
        let _ = i;
        f.push(Family {
            name: "seeded",
            depth: if quick { 2 } else { 3 },
            prefix: p,
            alpha: Alpha {
                sizes: vec![1],
                batches: vec![vec![2, 0]],
                clears: Clears::Narrow,
                reopen: true,
                make_read_only: false,
                max_len: u64::MAX,
                far_clear: false,
            },
            big: false,
        });
    }
    f
}

/// Page-scale macro histories (iii) and the oversized-entry history (iv).
pub fn big_histories(tier: &str) -> Vec<Vec<Op>> {
    let quick = tier == "quick";
    let mut out: Vec<Vec<Op>> = vec![];
    let ns: &[u32] = if quick {
        &[8193, 32769]
    } else {
        &[8191, 8192, 8193, 24576, 32767, 32768, 32769]
    };
    for &n in ns {
        let n64 = n as u64;
        let clears: Vec<(u64, u64)> = vec![(8190.min(n64 - 2), 8194.min(n64)), (n64 - 2, n64 + 1), (0, 1)];
        // batch; reopen
        out.push(vec![Op::BatchN(n), Op::Reopen, Op::Append(p1(1)), Op::Reopen]);
        for (s, e) in clears.iter().take(if quick { 1 } else { 3 }) {
            out.push(vec![Op::BatchN(n), Op::Clear(*s, *e), Op::Reopen, Op::Append(p1(2)), Op::Reopen]);
            out.push(vec![Op::BatchN(n), Op::Reopen, Op::Clear(*s, *e), Op::Reopen]);
        }
        if !quick {
            // two pages and a clear straddling 32768 / 65536
            out.push(vec![
                Op::BatchN(n),
                Op::BatchN(32768),
                Op::Clear(32766, 32770),
                Op::Reopen,
                Op::BatchN(5),
                Op::Clear(n64 + 32768 - 1, n64 + 32768 + 3),
                Op::Reopen,
            ]);
        }
    }
    // (iii'') the log ends exactly at / inside the last 32-bit word of the last bitfield page, so
    // that word is the tail of the bitfield file when it is read back (round-6 seeded change)
    for n in [32768u32, 32750] {
        if quick || n != 32768 {
            out.push(vec![Op::BatchN(n), Op::Reopen, Op::Append(p1(1)), Op::Reopen]);
        }
        out.push(vec![Op::BatchN(n), Op::Append(p1(2)), Op::Reopen, Op::Clear(n as u64 - 3, n as u64 - 1), Op::Reopen]);
    }
    if !quick {
        out.push(vec![
            Op::BatchN(32768),
            Op::BatchN(32768),
            Op::Append(p1(3)),
            Op::Clear(65534, 65538),
            Op::Reopen,
            Op::Clear(32767, 32769),
            Op::Append(p1(1)),
            Op::Reopen,
        ]);
    }
    // (iii') hole widening across a bitfield page boundary: the tail of page 0 is emptied by one
    // clear, another clear ends inside the emptied tail / at / just beyond the boundary; all
    // ordered pairs, with and without a reopen in between
    {
        let b = 32768u64;
        let n = (b + 100) as u32;
        let cl: Vec<(u64, u64)> = vec![(b - 68, b), (b - 168, b - 58), (b - 10, b + 10), (b, b + 5), (b - 5, b), (b - 300, b - 200)];
        let mut k = 0u32;
        let _ = &mut k;
        for (i, a) in cl.iter().enumerate() {
            for (j, c) in cl.iter().enumerate() {
                if i == j {
                    continue;
                }
                k += 1;
                out.push(vec![Op::BatchN(n), Op::Clear(a.0, a.1), Op::Clear(c.0, c.1), Op::Reopen, Op::Append(p1(2))]);
                if !quick {
                    out.push(vec![Op::BatchN(n), Op::Clear(a.0, a.1), Op::Reopen, Op::Clear(c.0, c.1), Op::Reopen]);
                }
            }
        }
    }
    // (iv) one entry larger than the 65536-byte oplog threshold: forces the early-flush branch
    out.push(vec![
        Op::Append(p1(1)),
        Op::BatchN(2000),
        Op::Append(p1(2)),
        Op::Clear(1, 3),
        Op::Reopen,
        Op::Append(p1(1)),
        Op::Reopen,
    ]);
    out
}

/// Range matrix: every (offset, count) shape of an appended batch and every (start, end) of a
/// clear over the first bitfield words, each followed by a reopen; all indices observed.
pub fn range_matrix(tier: &str) -> Vec<Vec<Op>> {
    let quick = tier == "quick";
    let mut out: Vec<Vec<Op>> = vec![];
    let (amax, nmax, lclear) = if quick { (34u32, 66u32, 68u64) } else { (66, 100, 100) };
    for a in 0..=amax {
        for n in 1..=nmax {
            let mut h = vec![];
            if a > 0 {
                h.push(Op::BatchN(a));
            }
            h.push(Op::BatchN(n));
            h.push(Op::Reopen);
            out.push(h);
        }
    }
    for s in 0..lclear {
        for e in s + 1..=lclear + 3 {
            out.push(vec![Op::BatchN(lclear as u32), Op::Clear(s, e), Op::Reopen]);
        }
    }
    out
}

pub fn run(tier: &str) -> i32 {
    let rep = Report::new("C01", tier, "model_checking");
    let stats = Stats::default();
    let states = FpSet::default();
    let outcomes = FpSet::default();
    let mut fam_json = vec![];
    let mut leaves_total = 0u64;
    for fam in families(tier) {
        let alpha = fam.alpha.clone();
        let af = move |m: &SysModel, _d: usize| alpha.ops(m);
        let e = E1 {
            prop: "C01",
            depth: fam.depth,
            with_replica: false,
            prefix: fam.prefix.clone(),
            alphabet: &af,
            threads: nthreads(),
            cache: CacheCfg::Off,
            altered: None,
        };
        let mk = || {
            let mut v = ObsVisitor::new("C01", &rep, &stats, &states, &outcomes, false);
            v.big = fam.big;
            v
        };
        let t = std::time::Instant::now();
        let (vs, leaves) = e.run(&mk);
        drop(vs);
        leaves_total += leaves;
        fam_json.push(json!({"family": fam.name, "depth": fam.depth, "prefix_ops": fam.prefix.len(),
            "complete_histories": leaves, "secs": t.elapsed().as_secs_f64()}));
    }
    // page-scale histories: executed one per thread, every prefix observed
    let bigs = big_histories(tier);
    let nb = bigs.len();
    let next = std::sync::atomic::AtomicUsize::new(0);
    std::thread::scope(|s| {
        for _ in 0..nthreads().min(nb.max(1)) {
            s.spawn(|| loop {
                let i = next.fetch_add(1, std::sync::atomic::Ordering::Relaxed);
                if i >= nb {
                    break;
                }
                let mut v = ObsVisitor::new("C01", &rep, &stats, &states, &outcomes, false);
                v.big = true;
                run_all_prefixes(&bigs[i], &mut v);
            });
        }
    });
    leaves_total += nb as u64;
    // range matrix
    let mats = range_matrix(tier);
    let nm = mats.len();
    let next = std::sync::atomic::AtomicUsize::new(0);
    std::thread::scope(|s| {
        for _ in 0..nthreads().min(nm.max(1)) {
            s.spawn(|| {
                let mut v = ObsVisitor::new("C01", &rep, &stats, &states, &outcomes, false);
                loop {
                    let i = next.fetch_add(1, std::sync::atomic::Ordering::Relaxed);
                    if i >= nm {
                        break;
                    }
                    run_all_prefixes(&mats[i], &mut v);
                }
            });
        }
    });
    leaves_total += nm as u64;
    let visited = stats.get("visited_prefixes");
    let coverage = json!({
        "states": states.len(),
        "transitions": stats.get("api_calls"),
        "traces_validated_against_impl": leaves_total,
        "evaluations": visited,
        "distinct_nontrivial": stats.get("distinct_nontrivial_states"),
        "distinct_outcomes": outcomes.len(),
        "rule": "E1: every op sequence over the alphabet up to the depth, per family; each distinct prefix is observed once (info, has/get on 0..=len+1 and far indices) against the list model; states are exact fingerprints of (storage image, calls since last open); non-trivial = has an append and a clear/reopen",
        "families": fam_json,
        "page_scale_histories": nb,
        "range_matrix_histories": nm,
        "samples": *stats.samples.lock().unwrap_or_else(|e| e.into_inner()),
        "exhaustive": true,
        "bounds": "see families: alphabet x depth; page-scale and oversized-entry histories are fixed lists; range matrix = every (already present a, appended n) batch shape and every clear(s,e) over the first bitfield words, each followed by a reopen",
    });
    rep.finish(
        coverage,
        vec![
            "block contents are index-dependent patterns of sizes 0..3 (1 byte at page scale)".into(),
            "clear with start >= length is outside the quantifier".into(),
        ],
    )
}

/// Execute one fixed history observing after every op.
pub fn run_all_prefixes<V: Visitor>(hist: &[Op], v: &mut V) {
    let alpha = |_: &SysModel, _: usize| -> Vec<Op> { vec![] };
    let e = E1 {
        prop: "C01",
        depth: hist.len(),
        with_replica: hist.iter().any(|o| o.is_replica_op()),
        prefix: vec![],
        alphabet: &alpha,
        threads: 1,
        cache: CacheCfg::Off,
        altered: None,
    };
    let ch = vec![0usize; hist.len()];
    e.execute(hist, &ch, v);
}

pub fn replay(case: &Value, rep: &Report) {
    let hist = parse_hist(case);
    let stats = Stats::default();
    let states = FpSet::default();
    let outcomes = FpSet::default();
    let mut v = ObsVisitor::new("C01", rep, &stats, &states, &outcomes, false);
    v.big = hist.iter().any(|o| matches!(o, Op::BatchN(_)));
    run_all_prefixes(&hist, &mut v);
}
