//! C02 — a crash between any two storage operations recovers to before-or-after.
use super::faults::*;
use crate::report::Report;
use serde_json::Value;

pub fn cfg(tier: &str) -> FaultCfg {
    FaultCfg {
        prop: "C02",
        crash: true,
        torn: TornMode::Off,
        io_faults: false,
        with_contig: false,
        cont_depth: 2,
        double_fault: tier != "quick",
        check_secret: false,
        thin_over: 0,
    }
}

pub fn run(tier: &str) -> i32 {
    run_fault_property(
        "C02",
        tier,
        "fault_enumeration",
        cfg(tier),
        fault_families(tier, 0),
        vec![
            "each storage operation is atomic and persisted in issue order (the statement's fault model)".into(),
            "crash points inside the very first build of an empty store are out of scope".into(),
        ],
    )
}

pub fn replay(case: &Value, rep: &Report) {
    replay_fault("C02", cfg("thorough"), case, rep)
}
