//! C03 — any honest proof is accepted and replicas converge to the writer's data.
//!
//! Engine E2: breadth-first saturation over replica storage images for a fixed writer log.
//! A step is open(image) -> one well-formed request/proof/apply -> drop -> image'. A freshly
//! opened core is a function of its image, so the image is an exact canonical state and the
//! search ends with all replica states reachable for that writer log, whatever the request
//! order or depth. Live (non-reopened) request sequences are explored on top from saturated
//! states.

use super::common::*;
use crate::drv::*;
use crate::env::{self, Image};
use crate::report::{FpSet, Report, Stats};
use crate::scheme;
use hypercore::Proof;
use serde_json::{json, Value};
use std::collections::HashMap;
use std::sync::atomic::{AtomicUsize, Ordering};
use std::sync::Mutex;

#[derive(Clone, Copy, Debug, PartialEq, Eq)]
pub enum Seeks {
    None,
    /// seek alone (with upgrade when behind), every byte; checked but not added as states
    Trials,
    /// additionally seek + block/hash combinations; seek-alone applications become transitions
    Full,
}

pub struct Writer {
    pub core: Core,
    pub model: ListModel,
    pub tree: scheme::RefTree,
}

pub fn build_writer(hist: &[Op]) -> Writer {
    let mut core = Core::create(key_pair(KEY_SEED), CacheCfg::Off);
    let mut m = ListModel::new();
    for op in hist {
        let n = m.len();
        let o = exec_writer(&mut core, op, n);
        m.apply(op);
        if !o.is_ok() {
            crate::sup::setup_failed(serde_json::json!(hist), &format!("writer history [{}] failed at {}: {}", hist_brief(hist), op.brief(), o.map(|_| ()).brief()));
        }
    }
    let tree = scheme::RefTree::build(&m.orig);
    Writer { core, model: m, tree }
}

/// Writer shapes: n blocks with sizes cycling 1,2,3,0 built by different append mixes, plus
/// single-block-cleared variants.
pub fn shape(n: u64, mix: u8, cleared: Option<u64>) -> Vec<Op> {
    let blk = |i: u64| Blk::P(((i + 1) % 4) as u32, 3);
    let mut h = vec![];
    match mix {
        0 => {
            for i in 0..n {
                h.push(Op::Append(blk(i)));
            }
        }
        1 => h.push(Op::Batch((0..n).map(blk).collect())),
        _ => {
            // batches of 2 then singles, with a reopen in the middle
            let mut i = 0;
            while i + 2 <= n / 2 * 2 && i < n / 2 {
                h.push(Op::Batch(vec![blk(i), blk(i + 1)]));
                i += 2;
            }
            h.push(Op::Reopen);
            while i < n {
                h.push(Op::Append(blk(i)));
                i += 1;
            }
        }
    }
    if let Some(c) = cleared {
        h.push(Op::Clear(c, c + 1));
    }
    h
}

/// Well-formed requests of a replica in model state `rm` against writer log `wm`.
pub fn actions(rm: &ReplicaModel, wm: &ListModel, tree: &scheme::RefTree, seeks: Seeks) -> Vec<Req> {
    let wl = wm.len();
    let rl = rm.len;
    let mut v = vec![];
    let targets: Vec<Option<u64>> = if rl < wl { (rl + 1..=wl).map(Some).collect() } else { vec![None] };
    for up in &targets {
        let l = up.unwrap_or(rl);
        if up.is_some() {
            v.push(Req { up: *up, ..Default::default() });
        }
        for i in 0..l {
            v.push(Req { block: Some(i), up: *up, ..Default::default() });
        }
        for j in 0..(2 * l).saturating_sub(1) {
            if scheme::right_span(j) < 2 * l {
                v.push(Req { hash: Some(j), up: *up, ..Default::default() });
            }
        }
        if seeks != Seeks::None {
            let total: u64 = wm.sizes[..l as usize].iter().sum();
            for b in 0..=total {
                v.push(Req { seek: Some(b), up: *up, ..Default::default() });
                if seeks == Seeks::Full {
                    // seek + indexed request: when upgrading the index must lie below the
                    // upgrade start
                    let lim = if up.is_some() { rl } else { l };
                    for i in 0..lim {
                        v.push(Req { block: Some(i), seek: Some(b), up: *up, ..Default::default() });
                    }
                }
            }
        }
    }
    let _ = tree;
    v
}

pub struct StepResult {
    pub image_after: Option<Image>,
    pub model_after: ReplicaModel,
    pub viol: Option<(String, String)>,
    pub proof: Option<Proof>,
    pub accepted: bool,
}

/// Is a proof owed for this request (must the writer answer and the replica accept)?
/// Seek + indexed request: only when the byte lies inside the subtree selected by `nodes`.
fn owed(req: &Req, creq: &ConcreteReq, w: &Writer, rm: &ReplicaModel) -> bool {
    if let (Some(j), Some(_)) = (req.hash, req.up) {
        // a tree node whose span straddles the replica's current length is recomputed by the
        // replica from the upgrade nodes themselves; no separate hash proof is owed for it
        // (if the writer does answer, the answer must be accepted)
        if scheme::left_span(j) < 2 * rm.len && scheme::right_span(j) >= 2 * rm.len {
            return false;
        }
    }
    if let (Some(b), Some(blk)) = (req.seek, creq.block.as_ref()) {
        let to = req.up.unwrap_or(rm.len) * 2;
        // subtree selected by nodes (must stay below `to`)
        let mut x = 2 * blk.index;
        for _ in 0..blk.nodes {
            x = scheme::parent(x);
        }
        if scheme::right_span(x) >= to {
            return false;
        }
        if req.up.is_some() && blk.index >= rm.len {
            return false;
        }
        let off = w.tree.byte_offset(x);
        let size = w.tree.nodes[&x].size;
        return b >= off && b < off + size;
    }
    true
}

/// One E2 step on the real code with the full C03 oracle.
pub fn step(w: &mut Writer, img: &Image, rm: &ReplicaModel, req: &Req, with_contig: bool) -> StepResult {
    let mut res = StepResult {
        image_after: None,
        model_after: rm.clone(),
        viol: None,
        proof: None,
        accepted: false,
    };
    let (mut rc, out) = Core::from_image(img.clone(), CacheCfg::Off);
    if !out.is_ok() {
        res.viol = Some(("open-fails".into(), format!("replica reopen: {}", out.brief())));
        return res;
    }
    step_live(w, &mut rc, rm, req, with_contig, &mut res);
    drop(rc.core.take());
    res.image_after = Some(rc.image());
    res
}

pub fn step_live(w: &mut Writer, rc: &mut Core, rm: &ReplicaModel, req: &Req, with_contig: bool, res: &mut StepResult) {
    let wm = &w.model;
    let creq = match concretize(rc.c(), req) {
        Out::Ok(c) => c,
        o => {
            res.viol = Some(("missing-nodes-fails".into(), format!("{}", o.map(|_| ()).brief())));
            return;
        }
    };
    let must = owed(req, &creq, w, rm);
    let cleared = req.block.map(|i| wm.blocks[i as usize].is_none()).unwrap_or(false);
    let proof = match create_proof(w.core.c(), &creq) {
        Out::Ok(Some(p)) => p,
        Out::Ok(None) => {
            if !cleared {
                res.viol = Some(("honest-no-proof".into(), "writer returned no proof for a held block".into()));
            }
            return;
        }
        Out::Err(e) => {
            if must && !cleared {
                res.viol = Some(("honest-no-proof".into(), format!("create_proof Err({e})")));
            }
            return;
        }
        Out::Panic(p) => {
            res.viol = Some(("create-proof-panics".into(), p));
            return;
        }
    };
    if cleared {
        res.viol = Some(("proof-for-cleared-block".into(), "writer produced a proof for a block it has cleared".into()));
        return;
    }
    res.proof = Some(proof.clone());
    match apply_proof(rc.c(), &proof) {
        Out::Ok(true) => res.accepted = true,
        Out::Ok(false) => {
            res.viol = Some(("honest-proof-refused".into(), "verify_and_apply_proof returned false".into()));
            return;
        }
        Out::Err(e) => {
            res.viol = Some(("honest-proof-refused".into(), format!("verify_and_apply_proof Err({e})")));
            return;
        }
        Out::Panic(p) => {
            res.viol = Some(("apply-panics".into(), p));
            return;
        }
    }
    let mut m = rm.clone();
    if req.up.is_some() {
        m.len = wm.len();
        m.byte_len = wm.byte_len();
    }
    if let Some(i) = req.block {
        m.held.insert(i);
    }
    res.model_after = m.clone();
    let (hp, gp) = probes_for(wm.len().max(m.len), false);
    let obs = observe(rc.c(), &hp, &gp);
    let exp = expect_replica(wm, &m, &hp, &gp);
    res.viol = diff_obs(&obs, &exp, &hp, &gp, with_contig);
}

pub struct SatResult {
    pub states: usize,
    pub transitions: u64,
    pub max_depth: u32,
    pub complete_reached: bool,
    /// all saturated states (image, model) when `keep` was requested
    pub kept: Vec<(Image, ReplicaModel)>,
}

fn req_sig(req: &Req) -> String {
    format!(
        "{}{}{}{}",
        if req.block.is_some() { "block" } else { "" },
        if req.hash.is_some() { "hash" } else { "" },
        if req.seek.is_some() { "+seek" } else { "" },
        if req.up.is_some() { "+upgrade" } else { "" }
    )
}

/// Saturate from `init` states for the writer history `whist`.
#[allow(clippy::too_many_arguments)]
pub fn saturate(
    prop: &'static str,
    whist: &[Op],
    init: Vec<(Image, ReplicaModel)>,
    seeks: Seeks,
    keep: bool,
    with_contig: bool,
    rep: &Report,
    stats: &Stats,
    global_states: &FpSet,
) -> SatResult {
    let threads = nthreads();
    let seen: Mutex<HashMap<u128, ()>> = Mutex::new(HashMap::new());
    let mut frontier: Vec<(Image, ReplicaModel)> = vec![];
    for (img, m) in init {
        let fp = env::fp_image(&img, b"");
        if seen.lock().unwrap_or_else(|e| e.into_inner()).insert(fp, ()).is_none() {
            frontier.push((img, m));
        }
    }
    let wl = build_writer(whist).model.len();
    let transitions = std::sync::atomic::AtomicU64::new(0);
    let complete = std::sync::atomic::AtomicBool::new(false);
    let kept: Mutex<Vec<(Image, ReplicaModel)>> = Mutex::new(vec![]);
    let mut depth = 0u32;
    while !frontier.is_empty() {
        let next: Mutex<Vec<(Image, ReplicaModel)>> = Mutex::new(vec![]);
        let idx = AtomicUsize::new(0);
        let fr = &frontier;
        std::thread::scope(|s| {
            for _ in 0..threads.min(fr.len()).max(1) {
                s.spawn(|| {
                    let mut w = build_writer(whist);
                    let present: u64 = w.model.blocks.iter().filter(|b| b.is_some()).count() as u64;
                    let mut local_next = vec![];
                    let mut ntrans = 0u64;
                    let mut kinds: std::collections::BTreeMap<String, u64> = Default::default();
                    loop {
                        let i = idx.fetch_add(1, Ordering::Relaxed);
                        if i >= fr.len() {
                            break;
                        }
                        let (img, rm) = &fr[i];
                        if rm.len == wl && rm.held.len() as u64 == present {
                            complete.store(true, Ordering::Relaxed);
                        }
                        let acts = actions(rm, &w.model, &w.tree, seeks);
                        for req in acts {
                            let is_trial = req.seek.is_some() && seeks == Seeks::Trials;
                            crate::sup::set_case(
                                &json!({"prop": prop, "what": "E2", "writer": whist, "req": req,
                                        "replica": {"len": rm.len, "held": rm.held}}).to_string(),
                            );
                            ntrans += 1;
                            let r = step(&mut w, img, rm, &req, with_contig);
                            if let Some((clause, detail)) = r.viol {
                                let sig = format!("req={} replica={}", req_sig(&req), if rm.len == 0 { "empty" } else if rm.len < wl { "behind" } else { "current" });
                                rep.violate(
                                    &clause,
                                    sig,
                                    format!(
                                        "writer [{}], replica(len {}, held {:?}), request {}: {}",
                                        hist_brief(whist),
                                        rm.len,
                                        rm.held,
                                        req_brief(&req),
                                        detail
                                    ),
                                    json!({"prop": prop, "what": "E2", "writer": whist, "req": req,
                                           "path": Value::Null, "replica": {"len": rm.len, "byte_len": rm.byte_len, "held": rm.held},
                                           "image": image_hex(img)}),
                                    (rm.held.len() + rm.len as usize) * 10 + whist.len(),
                                );
                                continue;
                            }
                            *kinds
                                .entry(format!("{}:{}", if r.accepted { "accepted" } else if r.proof.is_some() { "refused" } else { "no-proof" }, req_sig(&req)))
                                .or_insert(0) += 1;
                            if !r.accepted || is_trial {
                                continue;
                            }
                            let Some(ni) = r.image_after else { continue };
                            let fp = env::fp_image(&ni, b"");
                            let newly = seen.lock().unwrap_or_else(|e| e.into_inner()).insert(fp, ()).is_none();
                            if newly {
                                global_states.insert(fp);
                                local_next.push((ni, r.model_after));
                            }
                        }
                    }
                    transitions.fetch_add(ntrans, Ordering::Relaxed);
                    for (k, v) in kinds {
                        stats.add(&k, v);
                    }
                    next.lock().unwrap_or_else(|e| e.into_inner()).extend(local_next);
                    crate::sup::clear_case();
                });
            }
        });
        if keep {
            kept.lock().unwrap_or_else(|e| e.into_inner()).extend(frontier.iter().cloned());
        }
        frontier = next.into_inner().unwrap();
        if !frontier.is_empty() {
            depth += 1;
        }
    }
    stats.add("transitions", transitions.load(Ordering::Relaxed));
    let n = seen.lock().unwrap_or_else(|e| e.into_inner()).len();
    // canonical order (the BFS itself is parallel): "state #k" must mean the same state in
    // every run, e.g. when a published case is replayed by the supervisor
    {
        let mut k = kept.lock().unwrap_or_else(|e| e.into_inner());
        k.sort_by_cached_key(|(img, m)| (m.len, m.held.len(), env::fp_image(img, b"")));
    }
    SatResult {
        states: n,
        transitions: transitions.load(Ordering::Relaxed),
        max_depth: depth,
        complete_reached: complete.load(Ordering::Relaxed),
        kept: kept.into_inner().unwrap(),
    }
}

pub fn image_hex(img: &Image) -> Value {
    let hex = |v: &Vec<u8>| v.iter().map(|b| format!("{b:02x}")).collect::<String>();
    json!([hex(&img[0]), hex(&img[1]), hex(&img[2]), hex(&img[3])])
}
pub fn image_from_hex(v: &Value) -> Option<Image> {
    let un = |s: &str| -> Vec<u8> {
        (0..s.len() / 2).map(|i| u8::from_str_radix(&s[2 * i..2 * i + 2], 16).unwrap_or(0)).collect()
    };
    let a = v.as_array()?;
    if a.len() != 4 {
        return None;
    }
    Some([un(a[0].as_str()?), un(a[1].as_str()?), un(a[2].as_str()?), un(a[3].as_str()?)])
}

pub fn empty_replica() -> (Image, ReplicaModel) {
    let c = Core::create(public_only(&key_pair(KEY_SEED)), CacheCfg::Off);
    let img = c.image();
    (img, ReplicaModel::default())
}

/// Live walks: from a saturated state, request sequences without reopening in between.
#[allow(clippy::too_many_arguments)]
fn live_walks(
    prop: &'static str,
    whist: &[Op],
    states: &[(Image, ReplicaModel)],
    every: usize,
    depth: usize,
    rep: &Report,
    stats: &Stats,
) {
    let idx = AtomicUsize::new(0);
    let picks: Vec<&(Image, ReplicaModel)> = states.iter().step_by(every.max(1)).collect();
    let picks = &picks;
    std::thread::scope(|s| {
        for _ in 0..nthreads().min(picks.len()).max(1) {
            s.spawn(|| {
                let mut w = build_writer(whist);
                let mut walks = 0u64;
                let mut steps = 0u64;
                loop {
                    let i = idx.fetch_add(1, Ordering::Relaxed);
                    if i >= picks.len() {
                        break;
                    }
                    let (img, rm) = picks[i];
                    // enumerate sequences by DFS over the model
                    let mut stack: Vec<Vec<Req>> = vec![vec![]];
                    while let Some(seq) = stack.pop() {
                        // model after seq
                        let mut m = rm.clone();
                        for r in &seq {
                            if let Some(b) = r.block {
                                if w.model.blocks[b as usize].is_none() {
                                    // cleared on the writer: no proof at all, nothing changes
                                    continue;
                                }
                            }
                            if r.up.is_some() {
                                m.len = w.model.len();
                                m.byte_len = w.model.byte_len();
                            }
                            if let Some(b) = r.block {
                                m.held.insert(b);
                            }
                        }
                        if seq.len() < depth {
                            for a in actions(&m, &w.model, &w.tree, Seeks::None) {
                                // keep the live alphabet sharp: blocks and upgrades, few hashes
                                if a.hash.map(|j| j % 4 != 1).unwrap_or(false) {
                                    continue;
                                }
                                let mut s2 = seq.clone();
                                s2.push(a);
                                stack.push(s2);
                            }
                            if !seq.is_empty() {
                                // internal nodes are covered by their extensions
                                continue;
                            }
                        }
                        if seq.is_empty() {
                            continue;
                        }
                        walks += 1;
                        crate::sup::set_case(&json!({"prop": prop, "what": "E2-live", "writer": whist, "seq": seq}).to_string());
                        let (mut rc, out) = Core::from_image(img.clone(), CacheCfg::Off);
                        if !out.is_ok() {
                            continue;
                        }
                        let mut cur = rm.clone();
                        for (k, r) in seq.iter().enumerate() {
                            steps += 1;
                            let mut res = StepResult { image_after: None, model_after: cur.clone(), viol: None, proof: None, accepted: false };
                            step_live(&mut w, &mut rc, &cur, r, false, &mut res);
                            if let Some((clause, detail)) = res.viol {
                                rep.violate(
                                    &format!("live:{clause}"),
                                    format!("req={} step={}", req_sig(r), k),
                                    format!(
                                        "writer [{}], from replica(len {}, held {:?}) live requests [{}]: {}",
                                        hist_brief(whist),
                                        rm.len,
                                        rm.held,
                                        seq[..=k].iter().map(req_brief).collect::<Vec<_>>().join(" "),
                                        detail
                                    ),
                                    json!({"prop": prop, "what": "E2-live", "writer": whist, "seq": seq[..=k].to_vec(),
                                           "replica": {"len": rm.len, "byte_len": rm.byte_len, "held": rm.held}, "image": image_hex(img)}),
                                    1000 + k,
                                );
                                break;
                            }
                            cur = res.model_after;
                        }
                    }
                }
                stats.add("live_walks", walks);
                stats.add("live_steps", steps);
                crate::sup::clear_case();
            });
        }
    });
}

/// Every (replica length r, upgrade target L, writer length n) with r < L <= n <= nmax: a
/// replica that upgraded to the writer's head when the writer had r blocks asks the writer, now
/// at n blocks, for an upgrade to L (partial when L < n, the proof then carries additional
/// nodes) alone and together with a block. All root-set shapes up to nmax occur on both sides.
fn upgrade_matrix(nmax: u64, rep: &Report, stats: &Stats) -> u64 {
    // replica images at every length, taken while the writer grows
    let mut w = build_writer(&[]);
    let mut images: Vec<(Image, ReplicaModel)> = vec![empty_replica()];
    let blk = |i: u64| Blk::P(((i + 1) % 4) as u32, 3);
    let mut whist: Vec<Op> = vec![];
    let mut n_checked = 0u64;
    for n in 1..=nmax {
        let op = Op::Append(blk(n - 1));
        let len = w.model.len();
        if !exec_writer(&mut w.core, &op, len).is_ok() {
            return n_checked;
        }
        w.model.apply(&op);
        whist.push(op);
        w.tree = scheme::RefTree::build(&w.model.orig);
        for r in 0..n {
            let (img, rm) = images[r as usize].clone();
            for l in r + 1..=n {
                for with_block in [None, Some(l - 1), if r > 0 { Some(0) } else { None }] {
                    if with_block.is_none() && l != n && (n - l) > 9 && (l - r) > 9 && (n + l + r) % 3 != 0 {
                        continue; // thin the far-apart upgrade-only cases, keep every with_block variant small
                    }
                    if with_block == Some(0) && (l != n && l != r + 1) {
                        continue;
                    }
                    n_checked += 1;
                    let req = Req { block: with_block, up: Some(l), ..Default::default() };
                    crate::sup::tick();
                    let res = step(&mut w, &img, &rm, &req, false);
                    if let Some((clause, detail)) = res.viol {
                        rep.violate(
                            &clause,
                            format!("upgrade-matrix req={} partial={}", req_sig(&req), l < n),
                            format!("writer of {n} blocks, replica synced at length {r}, request {}: {}", req_brief(&req), detail),
                            json!({"prop": "C03", "what": "E2", "writer": whist, "req": req,
                                   "replica": {"len": rm.len, "byte_len": rm.byte_len, "held": rm.held}, "image": image_hex(&img)}),
                            (n * 100 + l) as usize,
                        );
                    }
                }
            }
        }
        // the replica state "synced at length n" for later rounds: a fresh replica upgrading to n now
        let (img0, rm0) = empty_replica();
        let res = step(&mut w, &img0, &rm0, &Req { up: Some(n), ..Default::default() }, false);
        match res.image_after {
            Some(i) if res.accepted => images.push((i, res.model_after)),
            _ => return n_checked,
        }
    }
    stats.add("upgrade_matrix_requests", n_checked);
    n_checked
}

pub fn run(tier: &str) -> i32 {
    let quick = tier == "quick";
    let rep = Report::new("C03", tier, "model_checking");
    let stats = Stats::default();
    let gstates = FpSet::default();
    let mut shapes: Vec<(String, Vec<Op>, Seeks)> = vec![];
    let nmax = if quick { 8 } else { 11 };
    for n in 1..=nmax {
        shapes.push((format!("n={n} singles"), shape(n, 0, None), if n <= if quick { 5 } else { 7 } { Seeks::Full } else { Seeks::None }));
    }
    for n in [2u64, 3, 5, 6] {
        shapes.push((format!("n={n} batch"), shape(n, 1, None), Seeks::Trials));
        shapes.push((format!("n={n} mixed+reopen"), shape(n, 2, None), Seeks::None));
    }
    let cl_n: &[u64] = if quick { &[4, 5] } else { &[3, 4, 5, 7] };
    for &n in cl_n {
        for c in 0..n {
            if quick && c % 2 == 1 {
                continue;
            }
            shapes.push((format!("n={n} cleared {c}"), shape(n, 0, Some(c)), Seeks::None));
        }
    }
    if !quick {
        shapes.push(("n=12 singles".into(), shape(12, 0, None), Seeks::None));
    }
    let mut shape_json = vec![];
    let mut total_states = 0usize;
    let mut traces = 0u64;
    for (name, whist, seeks) in &shapes {
        let t = std::time::Instant::now();
        let keep = build_writer(whist).model.len() <= if quick { 6 } else { 8 };
        let r = saturate("C03", whist, vec![empty_replica()], *seeks, keep, false, &rep, &stats, &gstates);
        total_states += r.states;
        traces += r.transitions;
        if !r.complete_reached && rep.num_signatures() == 0 {
            rep.violate(
                "no-convergence",
                format!("shape={name}"),
                format!("saturation for writer [{}] never reached the complete replica", hist_brief(whist)),
                json!({"prop": "C03", "what": "E2-converge", "writer": whist}),
                whist.len(),
            );
        }
        let mut live = json!(null);
        if keep && !r.kept.is_empty() {
            let every = if quick { 7 } else { 3 };
            let depth = if quick { 3 } else { 4 };
            live_walks("C03", whist, &r.kept, every, depth, &rep, &stats);
            live = json!({"from_every_kth_state": every, "depth": depth});
        }
        // growth rounds: writer appends k more; re-saturate from all previously reached states
        let mut growth = vec![];
        let wn = build_writer(whist).model.len();
        if keep && wn <= if quick { 4 } else { 6 } && !whist.iter().any(|o| matches!(o, Op::Clear(..))) {
            for k in [1u64, 2, 5] {
                let mut h2 = whist.clone();
                for i in 0..k {
                    h2.push(Op::Append(Blk::P(((wn + i + 1) % 4) as u32, 3)));
                }
                let r2 = saturate("C03", &h2, r.kept.clone(), Seeks::None, false, false, &rep, &stats, &gstates);
                total_states += r2.states;
                traces += r2.transitions;
                growth.push(json!({"appended": k, "states": r2.states, "transitions": r2.transitions, "complete_reached": r2.complete_reached}));
                if !r2.complete_reached && rep.num_signatures() == 0 {
                    rep.violate(
                        "no-convergence",
                        format!("growth shape={name} k={k}"),
                        format!("after growth to [{}] saturation never reached the complete replica", hist_brief(&h2)),
                        json!({"prop": "C03", "what": "E2-converge", "writer": h2}),
                        h2.len(),
                    );
                }
            }
        }
        shape_json.push(json!({"writer": name, "seeks": format!("{seeks:?}"), "states": r.states, "transitions": r.transitions,
            "max_depth": r.max_depth, "complete_reached": r.complete_reached, "live_walks": live, "growth_rounds": growth,
            "secs": t.elapsed().as_secs_f64()}));
    }
    // E1 on live replicas with writer growth, hash requests and replica reopen: every prefix is
    // observed (call result + info/has/get of the replica against the replica model)
    let states = FpSet::default();
    let outcomes = FpSet::default();
    let mut e1_json = vec![];
    for (name, prefix, depth, growth) in [
        ("replica of 2 growing to 5", shape(2, 0, None), if quick { 5 } else { 7 }, 5u64),
        ("replica of 4 (batch) growing to 6", shape(4, 1, None), if quick { 4 } else { 6 }, 6u64),
    ] {
        let af = move |m: &crate::explore::SysModel, _d: usize| super::faults::replica_ops_growth(m, growth);
        let e = crate::explore::E1 { prop: "C03", depth, with_replica: true, prefix: prefix.clone(), alphabet: &af, threads: nthreads(), cache: CacheCfg::Off, altered: None };
        let mk = || ObsVisitor::new("C03", &rep, &stats, &states, &outcomes, false);
        let (vs, leaves) = e.run(&mk);
        drop(vs);
        traces += leaves;
        e1_json.push(json!({"family": name, "depth": depth, "complete_histories": leaves}));
    }
    total_states += states.len();
    let matrix_n = if quick { 24 } else { 40 };
    let matrix = upgrade_matrix(matrix_n, &rep, &stats);
    traces += matrix;
    let coverage = json!({
        "states": total_states,
        "transitions": stats.get("transitions") + stats.get("live_steps"),
        "traces_validated_against_impl": traces + stats.get("live_walks"),
        "evaluations": stats.get("transitions") + stats.get("live_steps"),
        "distinct_nontrivial": gstates.len(),
        "rule": "E2: BFS over exact replica storage images per writer log; from every state every well-formed request (upgrade to every length, block, hash of every full tree node, seeks per the shape's seek mode) is proved by the real writer and applied by the real replica, reopening in between; all reachable states are visited (saturation). Oracle: proof returned (none iff block cleared), accepted, replica info/has/get equal the replica model. Live walks: request sequences without reopen from every k-th state. Growth rounds re-saturate from all earlier states after the writer appended.",
        "shapes": shape_json,
        "e1_replica_families_with_growth_and_reopen": e1_json,
        "upgrade_matrix": {"writer_lengths_up_to": matrix_n, "requests": matrix, "what": "replica synced at r, writer at n, upgrade to every L in (r, n] alone and with a block"},
        "live_walks": stats.get("live_walks"),
        "outcomes_by_request_kind": stats.counters_json(),
        "samples": [
            {"writer": "append x5 (sizes 2,3,0,1,2)", "replica": "len 0", "request": "block 3 with nodes from missing_nodes(3) + upgrade 0..5"},
            {"writer": "append x5", "replica": "len 5 held {3}", "request": "hash of tree node 5"},
            {"writer": "append x5", "replica": "len 0", "request": "seek byte 4 + upgrade 0..2 (partial: lands on length 5)"}
        ],
        "exhaustive": true,
    });
    rep.finish(
        coverage,
        vec![
            "writer logs: 1..N blocks, sizes cycling 2,3,0,1, built by singles/batch/mixed appends, single-block-cleared variants".into(),
            "seek + indexed request is owed only when the byte lies inside the subtree selected by nodes".into(),
        ],
    )
}

pub fn replay(case: &Value, rep: &Report) {
    replay_with(case, rep, false)
}

pub fn replay_with(case: &Value, rep: &Report, contig: bool) {
    let whist: Vec<Op> = serde_json::from_value(case["writer"].clone()).unwrap_or_default();
    let what = case["what"].as_str().unwrap_or("");
    let stats = Stats::default();
    let g = FpSet::default();
    if what == "E2-converge" {
        let r = saturate("C03", &whist, vec![empty_replica()], Seeks::None, false, false, rep, &stats, &g);
        if !r.complete_reached {
            rep.violate("no-convergence", "replay".into(), "never reached the complete replica".into(), case.clone(), 1);
        }
        return;
    }
    let Some(img) = image_from_hex(&case["image"]) else { return };
    let rm = ReplicaModel {
        len: case["replica"]["len"].as_u64().unwrap_or(0),
        byte_len: case["replica"]["byte_len"].as_u64().unwrap_or(0),
        held: serde_json::from_value(case["replica"]["held"].clone()).unwrap_or_default(),
    };
    let mut w = build_writer(&whist);
    if what == "E2" {
        let req: Req = serde_json::from_value(case["req"].clone()).unwrap_or_default();
        let r = step(&mut w, &img, &rm, &req, contig);
        if let Some((clause, detail)) = r.viol {
            rep.violate(&clause, "replay".into(), detail, case.clone(), 1);
        }
    } else if what == "E2-live" {
        let seq: Vec<Req> = serde_json::from_value(case["seq"].clone()).unwrap_or_default();
        let (mut rc, out) = Core::from_image(img, CacheCfg::Off);
        if !out.is_ok() {
            return;
        }
        let mut cur = rm;
        for r in &seq {
            let mut res = StepResult { image_after: None, model_after: cur.clone(), viol: None, proof: None, accepted: false };
            step_live(&mut w, &mut rc, &cur, r, contig, &mut res);
            if let Some((clause, detail)) = res.viol {
                rep.violate(&format!("live:{clause}"), "replay".into(), detail, case.clone(), 1);
                return;
            }
            cur = res.model_after;
        }
    }
}
