//! C04 — forged or altered proofs never change what a replica believes.
//! Every replica state of the C03 saturation x every honest proof enabled there x every
//! single-field alteration (E4), plus systematic forgeries. Oracle: safety always; refusal for
//! the classes the statement names; refused => every observation unchanged.

use super::c03::{self, Seeks, Writer};
use super::common::*;
use crate::alter::{self, Alt, Bits};
use crate::drv::*;
use crate::env::Image;
use crate::report::{FpSet, Report, Stats};
use crate::scheme;
use hypercore::Proof;
use serde_json::{json, Value};
use std::collections::{BTreeMap, BTreeSet};
use std::sync::atomic::{AtomicUsize, Ordering};

pub fn signed_pairs(whist: &[Op]) -> BTreeSet<(u64, u64)> {
    let mut m = ListModel::new();
    let mut s = BTreeSet::new();
    s.insert((0, 0));
    for op in whist {
        m.apply(op);
        s.insert((m.len(), m.byte_len()));
    }
    s
}

pub struct ForgeCtx {
    /// a writer with another key over the same data
    pub other_writer: Core,
    pub other_key: hypercore::SigningKey,
    /// the same writer key, but one block shorter (genuine signature for another length)
    pub shorter_writer: Option<Core>,
    pub foreign_node: hypercore::Node,
    /// the writer's genuine signatures for every earlier length of its history: (length, signature)
    pub earlier_signatures: Vec<(u64, Vec<u8>)>,
}

pub fn build_forge_ctx(whist: &[Op]) -> ForgeCtx {
    let okp = key_pair(OTHER_KEY_SEED);
    let mut ow = Core::create(okp.clone(), CacheCfg::Off);
    let mut m = ListModel::new();
    for op in whist {
        let n = m.len();
        exec_writer(&mut ow, op, n);
        m.apply(op);
    }
    // shorter writer: same key, all ops but truncated to length-1 appends (only for pure
    // single-append histories)
    let shorter = if whist.iter().all(|o| matches!(o, Op::Append(_))) && whist.len() >= 2 {
        let mut sw = Core::create(key_pair(KEY_SEED), CacheCfg::Off);
        let mut m2 = ListModel::new();
        for op in &whist[..whist.len() - 1] {
            let n = m2.len();
            exec_writer(&mut sw, op, n);
            m2.apply(op);
        }
        Some(sw)
    } else {
        None
    };
    // genuine signatures of every intermediate length (same key): replaying one of them - in
    // particular the one the replica already holds - on a proof for another length is a forgery
    let mut earlier_signatures = vec![];
    {
        let mut gw = Core::create(key_pair(KEY_SEED), CacheCfg::Off);
        let mut gm = ListModel::new();
        for op in whist {
            let n = gm.len();
            exec_writer(&mut gw, op, n);
            gm.apply(op);
            let l = gm.len();
            if l > 0 && gw.core.is_some() {
                if let Out::Ok(Some(p)) = create_proof(gw.c(), &ConcreteReq { block: None, hash: None, seek: None, upgrade: Some(hypercore::RequestUpgrade { start: 0, length: l }) }) {
                    if let Some(u) = p.upgrade {
                        if earlier_signatures.last().map(|(x, _): &(u64, Vec<u8>)| *x != l).unwrap_or(true) {
                            earlier_signatures.push((l, u.signature));
                        }
                    }
                }
            }
        }
    }
    ForgeCtx {
        earlier_signatures,
        other_writer: ow,
        other_key: okp.secret.unwrap(),
        shorter_writer: shorter,
        foreign_node: alter::mk_node(0, 1, &scheme::leaf_hash(b"foreign")),
    }
}

/// Forgeries for one honest (request, proof).
fn forgeries(w: &Writer, fc: &mut ForgeCtx, creq: &ConcreteReq, proof: &Proof) -> Vec<Alt> {
    let mut out = vec![];
    let wl = w.model.len();
    // (b) valid signature by another key over the genuine tree head
    if proof.upgrade.is_some() {
        let rh = w.tree.root_hash(wl);
        if let Some(p) = alter::resign_with_other_key(proof, &fc.other_key, &rh, wl) {
            out.push(Alt { class: "forge.other-key-signature".into(), desc: "genuine head re-signed by another key".into(), proof: p, must_refuse: true });
        }
    }
    // (a) substituted block, parents and roots recomputed consistently, signed by another key
    // = the proof a different writer (other key) would give for different data at that index:
    // take the other writer's proof and keep it whole (d), and also splice only its block in.
    if let Out::Ok(Some(op)) = create_proof(fc.other_writer.c(), creq) {
        // (d) whole proof from a different writer over the same data
        out.push(Alt { class: "forge.foreign-writer-proof".into(), desc: "complete honest proof from a writer with another key over the same data".into(), proof: op.clone(), must_refuse: proof.upgrade.is_some() });
        if let (Some(u), Some(_)) = (op.upgrade.as_ref(), proof.upgrade.as_ref()) {
            // genuine structure, foreign signature only
            let mut p = proof.clone();
            p.upgrade.as_mut().unwrap().signature = u.signature.clone();
            out.push(Alt { class: "forge.foreign-signature".into(), desc: "genuine proof carrying the other writer's signature".into(), proof: p, must_refuse: true });
        }
    }
    // substituted block value with the leaf/parents recomputed by the verifier itself; add a
    // forged signature by the other key over the consistently recomputed roots
    if let (Some(b), Some(_)) = (proof.block.as_ref(), proof.upgrade.as_ref()) {
        let mut blocks = w.model.orig.clone();
        let mut nv = b.value.clone();
        nv.push(0x5a);
        blocks[b.index as usize] = nv.clone();
        let ft = scheme::RefTree::build(&blocks);
        let mut p = proof.clone();
        p.block.as_mut().unwrap().value = nv;
        // recompute every carried node that is an ancestor of the substituted leaf
        let leaf = 2 * b.index;
        let fix = |nodes: &mut Vec<hypercore::Node>| {
            for nd in nodes.iter_mut() {
                let (i, _, _) = alter::node_parts(nd);
                if scheme::left_span(i) <= leaf && leaf <= scheme::right_span(i) {
                    if let Some(r) = ft.nodes.get(&i) {
                        *nd = alter::mk_node(i, r.size, &r.hash);
                    }
                }
            }
        };
        fix(&mut p.upgrade.as_mut().unwrap().nodes);
        fix(&mut p.upgrade.as_mut().unwrap().additional_nodes);
        out.push(Alt { class: "forge.substituted-block-old-signature".into(), desc: "block value replaced, carried ancestors recomputed, writer's old signature".into(), proof: p.clone(), must_refuse: true });
        let rh = ft.root_hash(wl);
        if let Some(p2) = alter::resign_with_other_key(&p, &fc.other_key, &rh, wl) {
            out.push(Alt { class: "forge.substituted-block-other-key".into(), desc: "block value replaced, tree recomputed, signed by another key".into(), proof: p2, must_refuse: true });
        }
    }
    // (c') replay of a genuine signature for another length of the same writer (including the
    // one a replica at that length already holds)
    if proof.upgrade.is_some() {
        for (l, sig) in &fc.earlier_signatures {
            if *l != wl {
                let mut p = proof.clone();
                p.upgrade.as_mut().unwrap().signature = sig.clone();
                out.push(Alt { class: "forge.replayed-signature".into(), desc: format!("writer's genuine signature for length {l} replayed on a proof for length {wl}"), proof: p, must_refuse: true });
            }
        }
    }
    // (c) the writer's genuine signature for a different length
    if let (Some(sw), Some(_)) = (fc.shorter_writer.as_mut(), proof.upgrade.as_ref()) {
        let sl = wl - 1;
        if let Out::Ok(Some(sp)) = create_proof(sw.c(), &ConcreteReq { block: None, hash: None, seek: None, upgrade: Some(hypercore::RequestUpgrade { start: 0, length: sl }) }) {
            if let Some(su) = sp.upgrade.as_ref() {
                let mut p = proof.clone();
                p.upgrade.as_mut().unwrap().signature = su.signature.clone();
                out.push(Alt { class: "forge.signature-for-other-length".into(), desc: format!("writer's genuine signature for length {sl} on a proof for length {wl}"), proof: p, must_refuse: true });
            }
        }
    }
    out
}

struct StateCtx {
    hp: Vec<u64>,
    gp: Vec<u64>,
    before: Obs,
}

#[allow(clippy::too_many_arguments)]
/// Honest replication from this state: upgrade if behind, then fetch every missing block in
/// order; every step under the full C03 oracle. Returns a description if it cannot complete.
fn complete_greedily(w: &mut Writer, img: &Image, rm: &ReplicaModel) -> Option<String> {
    let mut img = img.clone();
    let mut m = rm.clone();
    let wl = w.model.len();
    let mut todo: Vec<Req> = vec![];
    if m.len < wl {
        todo.push(Req { up: Some(wl), ..Default::default() });
    }
    for i in 0..wl {
        if !m.held.contains(&i) && w.model.blocks[i as usize].is_some() {
            todo.push(Req { block: Some(i), ..Default::default() });
        }
    }
    for req in todo {
        let r = c03::step(w, &img, &m, &req, false);
        if let Some((c, d)) = r.viol {
            return Some(format!("honest request {} afterwards: {c}: {d}", req_brief(&req)));
        }
        if !r.accepted {
            return Some(format!("honest request {} afterwards was not accepted", req_brief(&req)));
        }
        img = r.image_after?;
        m = r.model_after;
    }
    None
}

#[allow(clippy::too_many_arguments)]
fn check_alt(
    w: &mut Writer,
    whist: &[Op],
    pairs: &BTreeSet<(u64, u64)>,
    img: &Image,
    rm: &ReplicaModel,
    sc: &StateCtx,
    req: &Req,
    alt: &Alt,
    rep: &Report,
    local: &mut BTreeMap<String, u64>,
    deep: bool,
    completions: &FpSet,
    warm: Option<&Proof>,
    cache: CacheCfg,
) {
    let (mut rc, out) = Core::from_image(img.clone(), cache);
    if !out.is_ok() {
        return;
    }
    // live mode: an honest proof is applied first on the same instance (no reopen in between),
    // so the altered proof meets unflushed in-memory state
    let live_ctx;
    let sc = if let Some(wp) = warm {
        if !matches!(apply_proof(rc.c(), wp), Out::Ok(true)) {
            return;
        }
        let before = observe(rc.c(), &sc.hp, &sc.gp);
        live_ctx = StateCtx { hp: sc.hp.clone(), gp: sc.gp.clone(), before };
        &live_ctx
    } else {
        sc
    };
    let res = apply_proof(rc.c(), &alt.proof);
    let verdict = match &res {
        Out::Ok(true) => "accepted",
        Out::Ok(false) => "false",
        Out::Err(_) => "err",
        Out::Panic(_) => "panic",
    };
    *local.entry(format!("{}:{}", alt.class, verdict)).or_insert(0) += 1;
    let mut viol: Option<(String, String)> = None;
    if let Out::Panic(p) = &res {
        viol = Some(("panic".into(), format!("verify_and_apply_proof panicked: {p}")));
    }
    let accepted = matches!(res, Out::Ok(true));
    if viol.is_none() && accepted && alt.must_refuse {
        viol = Some(("accepted-forgery".into(), "the altered proof was accepted".into()));
    }
    // observations after, live and after reopen
    if viol.is_none() {
        let after = observe(rc.c(), &sc.hp, &sc.gp);
        drop(rc.core.take());
        let img2 = rc.image();
        let (mut rc2, out2) = Core::from_image(img2.clone(), cache);
        let after2 = if out2.is_ok() { Some(observe(rc2.c(), &sc.hp, &sc.gp)) } else { None };
        if !out2.is_ok() {
            viol = Some(("open-fails-after-altered-proof".into(), out2.brief()));
        }
        for (tag, o) in [("live", Some(&after)), ("reopened", after2.as_ref())] {
            let Some(o) = o else { continue };
            if viol.is_some() {
                break;
            }
            if !accepted {
                if let Some((c, d)) = diff_obs(o, &sc.before, &sc.hp, &sc.gp, true) {
                    viol = Some((format!("refused-but-changed:{c}"), format!("({tag}) {d}")));
                }
            } else {
                // safety: held blocks equal the writer's, length pair signed by the writer
                if !pairs.contains(&(o.length, o.byte_length)) {
                    viol = Some(("unsigned-length".into(), format!("({tag}) replica reports length {} byte_length {} which the writer never signed", o.length, o.byte_length)));
                }
                for (k, &i) in sc.gp.iter().enumerate() {
                    if viol.is_some() {
                        break;
                    }
                    match &o.get[k] {
                        GetR::Some(v) => {
                            if i as usize >= w.model.orig.len() || &w.model.orig[i as usize] != v {
                                viol = Some(("wrong-block".into(), format!("({tag}) replica holds {} at index {i}, not the writer's block", getr_brief(&o.get[k]))));
                            }
                        }
                        GetR::None => {}
                        g => viol = Some(("read-broken".into(), format!("({tag}) get({i}) = {}", getr_brief(g)))),
                    }
                }
                for (k, &i) in sc.hp.iter().enumerate() {
                    if viol.is_none() && o.has[k] != matches!(o.get[k], GetR::Some(_)) && i < 1 << 19 {
                        viol = Some(("has-get-disagree".into(), format!("({tag}) has({i}) = {} but get = {}", o.has[k], getr_brief(&o.get[k]))));
                    }
                }
            }
        }
        // accepted (safety-tier) alteration: honest replication must still complete
        if viol.is_none() && accepted && deep {
            if let Some(o) = after2.as_ref() {
                if completions.insert(crate::env::fp_image(&img2, b"")) {
                    *local.entry("completion_runs".into()).or_insert(0) += 1;
                    let m2 = ReplicaModel {
                        len: o.length,
                        byte_len: o.byte_length,
                        held: sc.hp.iter().enumerate().filter(|(k, _)| o.has[*k]).map(|(_, &i)| i).collect(),
                    };
                    if let Some(d) = complete_greedily(w, &img2, &m2) {
                        viol = Some(("replication-stuck-after-accepted-alteration".into(), d));
                    }
                }
            }
        }
    }
    if let Some((clause, detail)) = viol {
        rep.violate(
            &clause,
            format!("alt={} req={}{}", alt.class, c03_req_sig(req), if cache == CacheCfg::Off { "" } else { " cache=on" }),
            format!(
                "writer [{}], replica(len {}, held {:?}), honest request {}, alteration: {} -> {}: {}",
                hist_brief(whist), rm.len, rm.held, req_brief(req), alt.desc, verdict, detail
            ),
            json!({"prop": "C04", "what": "alt", "writer": whist, "req": req, "alt": alt.desc, "cache": format!("{cache:?}"),
                   "replica": {"len": rm.len, "byte_len": rm.byte_len, "held": rm.held}, "image": c03::image_hex(img)}),
            rm.held.len() * 10 + rm.len as usize + whist.len(),
        );
    }
}

fn c03_req_sig(req: &Req) -> String {
    format!(
        "{}{}{}{}",
        if req.block.is_some() { "block" } else { "" },
        if req.hash.is_some() { "hash" } else { "" },
        if req.seek.is_some() { "+seek" } else { "" },
        if req.up.is_some() { "+upgrade" } else { "" }
    )
}

/// All alterations + forgeries for every honest proof enabled in every given state.
#[allow(clippy::too_many_arguments)]
pub fn sweep(
    whist: &[Op],
    states: &[(Image, ReplicaModel)],
    bits: Bits,
    seeks: Seeks,
    cache: CacheCfg,
    only_desc: Option<&str>,
    rep: &Report,
    stats: &Stats,
    classes: &FpSet,
) {
    let idx = AtomicUsize::new(0);
    let pairs = signed_pairs(whist);
    let pairs = &pairs;
    let completions = FpSet::default();
    let completions = &completions;
    std::thread::scope(|s| {
        for _ in 0..nthreads().min(states.len()).max(1) {
            s.spawn(|| {
                let mut w = c03::build_writer(whist);
                let mut fc = build_forge_ctx(whist);
                let mut local: BTreeMap<String, u64> = BTreeMap::new();
                let mut nalt = 0u64;
                let mut nproofs = 0u64;
                loop {
                    let i = idx.fetch_add(1, Ordering::Relaxed);
                    if i >= states.len() {
                        break;
                    }
                    let (img, rm) = &states[i];
                    crate::sup::set_case(&json!({"prop": "C04", "what": "alt", "writer": whist,
                        "replica": {"len": rm.len, "byte_len": rm.byte_len, "held": rm.held}, "image": c03::image_hex(img)}).to_string());
                    let (hp, gp) = probes_for(w.model.len(), false);
                    let (mut rc0, out) = Core::from_image(img.clone(), CacheCfg::Off);
                    if !out.is_ok() {
                        continue;
                    }
                    let before = observe(rc0.c(), &hp, &gp);
                    let sc = StateCtx { hp, gp, before };
                    for req in c03::actions(rm, &w.model, &w.tree, seeks) {
                        let creq = match concretize(rc0.c(), &req) {
                            Out::Ok(c) => c,
                            _ => continue,
                        };
                        let proof = match create_proof(w.core.c(), &creq) {
                            Out::Ok(Some(p)) => p,
                            _ => continue,
                        };
                        nproofs += 1;
                        let mut alts = alter::alterations(&proof, bits, &fc.foreign_node);
                        alts.extend(forgeries(&w, &mut fc, &creq, &proof));
                        for alt in &alts {
                            if let Some(d) = only_desc {
                                if alt.desc != d {
                                    continue;
                                }
                            }
                            nalt += 1;
                            classes.insert(crate::env::fp128(&[alt.class.as_bytes(), c03_req_sig(&req).as_bytes(), &[rm.len as u8, rm.held.len() as u8]]));
                            crate::sup::tick();
                            check_alt(&mut w, whist, pairs, img, rm, &sc, &req, alt, rep, &mut local, true, completions, None, cache);
                        }
                    }
                }
                stats.add("alterations", nalt);
                stats.add("honest_proofs", nproofs);
                for (k, v) in local {
                    stats.add(&format!("verdict {k}"), v);
                }
                crate::sup::clear_case();
            });
        }
    });
}

/// Live variant: from every state, one honest warm-up request is applied on the instance and the
/// altered proofs of the requests enabled afterwards are applied to that same live instance.
pub fn sweep_live(whist: &[Op], states: &[(Image, ReplicaModel)], bits: Bits, rep: &Report, stats: &Stats, classes: &FpSet) {
    let idx = AtomicUsize::new(0);
    let pairs = signed_pairs(whist);
    let pairs = &pairs;
    let completions = FpSet::default();
    let completions = &completions;
    std::thread::scope(|s| {
        for _ in 0..nthreads().min(states.len()).max(1) {
            s.spawn(|| {
                let mut w = c03::build_writer(whist);
                let mut fc = build_forge_ctx(whist);
                let mut local: BTreeMap<String, u64> = BTreeMap::new();
                let mut nalt = 0u64;
                loop {
                    let i = idx.fetch_add(1, Ordering::Relaxed);
                    if i >= states.len() {
                        break;
                    }
                    let (img, rm) = &states[i];
                    crate::sup::set_case(&json!({"prop": "C04", "what": "alt-live", "writer": whist,
                        "replica": {"len": rm.len, "byte_len": rm.byte_len, "held": rm.held}, "image": c03::image_hex(img)}).to_string());
                    let (hp, gp) = probes_for(w.model.len(), false);
                    // warm-up requests: the first upgrade (if behind) and up to two block requests
                    let warms: Vec<Req> = c03::actions(rm, &w.model, &w.tree, Seeks::None)
                        .into_iter()
                        .filter(|r| r.hash.is_none() && (r.up.is_none() || r.up == Some(w.model.len())) && r.block.map(|b| b < 2).unwrap_or(true))
                        .take(3)
                        .collect();
                    for warm in warms {
                        let (mut rc1, out) = Core::from_image(img.clone(), CacheCfg::Off);
                        if !out.is_ok() {
                            continue;
                        }
                        let Out::Ok(cw) = concretize(rc1.c(), &warm) else { continue };
                        let Out::Ok(Some(pw)) = create_proof(w.core.c(), &cw) else { continue };
                        if !matches!(apply_proof(rc1.c(), &pw), Out::Ok(true)) {
                            continue;
                        }
                        let mut m1 = rm.clone();
                        if warm.up.is_some() {
                            m1.len = w.model.len();
                            m1.byte_len = w.model.byte_len();
                        }
                        if let Some(b) = warm.block {
                            m1.held.insert(b);
                        }
                        let sc = StateCtx { hp: hp.clone(), gp: gp.clone(), before: observe(rc1.c(), &hp, &gp) };
                        for req in c03::actions(&m1, &w.model, &w.tree, Seeks::None) {
                            let Out::Ok(creq) = concretize(rc1.c(), &req) else { continue };
                            let Out::Ok(Some(proof)) = create_proof(w.core.c(), &creq) else { continue };
                            let mut alts = alter::alterations(&proof, bits, &fc.foreign_node);
                            alts.extend(forgeries(&w, &mut fc, &creq, &proof));
                            for alt in &alts {
                                nalt += 1;
                                classes.insert(crate::env::fp128(&[b"live", alt.class.as_bytes(), c03_req_sig(&req).as_bytes(), &[m1.len as u8, m1.held.len() as u8]]));
                                crate::sup::tick();
                                check_alt(&mut w, whist, pairs, img, &m1, &sc, &req, alt, rep, &mut local, false, completions, Some(&pw), CacheCfg::Off);
                            }
                        }
                    }
                }
                stats.add("alterations", nalt);
                stats.add("live_alterations", nalt);
                for (k, v) in local {
                    stats.add(&format!("verdict live:{k}"), v);
                }
                crate::sup::clear_case();
            });
        }
    });
}

pub fn run(tier: &str) -> i32 {
    let quick = tier == "quick";
    let rep = Report::new("C04", tier, "exploration");
    let stats = Stats::default();
    let g = FpSet::default();
    let classes = FpSet::default();
    let mut shapes: Vec<(Vec<Op>, Bits, Seeks)> = vec![];
    if quick {
        for n in 1..=5u64 {
            shapes.push((c03::shape(n, 0, None), if n <= 3 { Bits::All } else { Bits::Few }, if n <= 4 { Seeks::Full } else { Seeks::None }));
        }
        shapes.push((c03::shape(6, 0, None), Bits::Few, Seeks::None));
        shapes.push((c03::shape(3, 1, None), Bits::All, Seeks::None));
        shapes.push((c03::shape(4, 0, Some(1)), Bits::Few, Seeks::None));
    } else {
        for n in 1..=8u64 {
            shapes.push((c03::shape(n, 0, None), if n <= 5 { Bits::All } else { Bits::Few }, if n <= 5 { Seeks::Full } else { Seeks::None }));
        }
        shapes.push((c03::shape(5, 1, None), Bits::Few, Seeks::Full));
        shapes.push((c03::shape(6, 2, None), Bits::Few, Seeks::None));
        shapes.push((c03::shape(5, 0, Some(2)), Bits::All, Seeks::None));
    }
    let mut shape_json = vec![];
    let mut nstates = 0usize;
    for (whist, bits, seeks) in &shapes {
        let t = std::time::Instant::now();
        let tmp = Report::new("C04", tier, "exploration"); // honest-run violations belong to C03
        let r = c03::saturate("C04", whist, vec![c03::empty_replica()], Seeks::None, true, false, &tmp, &stats, &g);
        nstates += r.kept.len();
        sweep(whist, &r.kept, *bits, *seeks, CacheCfg::Off, None, &rep, &stats, &classes);
        if c03::build_writer(whist).model.len() <= if quick { 4 } else { 6 } {
            sweep_live(whist, &r.kept, Bits::Few, &rep, &stats, &classes);
            sweep(whist, &r.kept, Bits::Few, Seeks::None, CacheCfg::Default, None, &rep, &stats, &classes);
        }
        // growth: the writer appends k more blocks; every earlier replica state (which holds the
        // old head and its signature) receives the altered / forged proofs of the longer writer
        let wn = c03::build_writer(whist).model.len();
        if wn >= 1 && wn <= if quick { 3 } else { 5 } && whist.iter().all(|o| matches!(o, Op::Append(_))) {
            for k in [1u64, 2] {
                let mut h2 = whist.clone();
                for i in 0..k {
                    h2.push(Op::Append(Blk::P(((wn + i + 1) % 4) as u32, 3)));
                }
                let upgraded: Vec<(Image, ReplicaModel)> = r.kept.iter().filter(|(_, m)| m.len == wn).cloned().collect();
                nstates += upgraded.len();
                // with and without the node cache on the replica (a cache must never stand in for a check)
                for cache in [CacheCfg::Off, CacheCfg::Default, CacheCfg::Tiny] {
                    sweep(&h2, &upgraded, Bits::Few, Seeks::None, cache, None, &rep, &stats, &classes);
                }
            }
        }
        shape_json.push(json!({"writer": hist_brief(whist), "bits": format!("{bits:?}"), "seek_proofs": format!("{seeks:?}"),
            "replica_states": r.kept.len(), "secs": t.elapsed().as_secs_f64()}));
    }
    let verdicts: BTreeMap<String, u64> = stats
        .counters
        .lock()
        .unwrap()
        .iter()
        .filter(|(k, _)| k.starts_with("verdict "))
        .map(|(k, v)| (k[8..].to_string(), *v))
        .collect();
    let coverage = json!({
        "evaluations": stats.get("alterations"),
        "distinct_nontrivial": classes.len(),
        "rule": "every replica state reachable by honest replication for each writer shape x every honest proof enabled there (all well-formed requests) x every single-field alteration (bit flips of value / every node hash / signature per the bits mode; +-1 on fork, indices, sizes, seek bytes, upgrade start/length; node drop/dup/swap/insert-foreign at every position; section removal; sizes of the bottom node of hash-only and seek sections excluded) + forgeries (other-key signature over genuine head, foreign writer's proof and signature, substituted block with recomputed ancestors under old signature and under another key, genuine signature for another length). distinct_nontrivial = distinct (alteration class, request kind, replica length, held count) combinations",
        "replica_states": nstates,
        "honest_proofs_altered": stats.get("honest_proofs"),
        "alterations_applied_to_a_live_instance_after_an_honest_step": stats.get("live_alterations"),
        "shapes": shape_json,
        "verdicts_by_class": verdicts,
        "samples": [
            "writer 3 blocks, empty replica, request block 1 + upgrade 0..3, alteration block.value byte 0 bit 0 -> must be refused, replica unchanged",
            "writer 4 blocks, replica len 4 held {2}, request hash 5, alteration hash.nodes[1].hash byte 16 bit 7",
            "writer 3 blocks, forgery: genuine head re-signed by another key"
        ],
        "exhaustive": true,
    });
    rep.finish(
        coverage,
        vec![
            "numeric alterations are +-1 (values stay far below 2^40)".into(),
            "must-refuse classes: block bytes, node hashes, authenticated node sizes, signature, upgrade start/length, fork, foreign key; all others: safety clause only".into(),
        ],
    )
}

pub fn replay(case: &Value, rep: &Report) {
    let whist: Vec<Op> = serde_json::from_value(case["writer"].clone()).unwrap_or_default();
    let Some(img) = c03::image_from_hex(&case["image"]) else { return };
    let rm = ReplicaModel {
        len: case["replica"]["len"].as_u64().unwrap_or(0),
        byte_len: case["replica"]["byte_len"].as_u64().unwrap_or(0),
        held: serde_json::from_value(case["replica"]["held"].clone()).unwrap_or_default(),
    };
    let stats = Stats::default();
    let classes = FpSet::default();
    let desc = case["alt"].as_str().map(|s| s.to_string());
    // all bit positions so that any recorded description can be regenerated
    let cache = match case["cache"].as_str() { Some("Default") => CacheCfg::Default, Some("Tiny") => CacheCfg::Tiny, _ => CacheCfg::Off };
    sweep(&whist, &[(img, rm)], Bits::All, Seeks::Full, cache, desc.as_deref(), rep, &stats, &classes);
}
