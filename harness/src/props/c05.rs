//! C05 — Merkle tree, root hash and signature match an independent reference.
//! E1 over append/batch/reopen mixes; after every step the persisted nodes (tree store plus
//! pending oplog entries, obtained with the independent disk-format reader), the root hash, the
//! stored signature, and every node/signature carried in proofs are compared with the scheme
//! reference.

use super::common::*;
use crate::alter::node_parts;
use crate::drv::*;
use crate::explore::*;
use crate::format;
use crate::report::{FpSet, Report, Stats};
use crate::scheme;
use hypercore::{Proof, RequestBlock, RequestUpgrade};
use serde_json::{json, Value};
use std::collections::BTreeMap;

const SIZES: [u32; 8] = [1, 0, 2, 3, 255, 256, 4096, 5000];

fn blk_at(i: u64, shift: u64) -> Blk {
    Blk::P(SIZES[((i + shift) % 8) as usize], 5)
}

struct V<'a> {
    rep: &'a Report,
    stats: &'a Stats,
    states: &'a FpSet,
    shapes: &'a FpSet,
    proofs_upto: u64,
    local: BTreeMap<&'static str, u64>,
}
impl<'a> Drop for V<'a> {
    fn drop(&mut self) {
        self.stats.merge_local(&self.local);
    }
}

fn check_proof_nodes(p: &Proof, t: &scheme::RefTree, len: u64, pk: &[u8; 32]) -> Option<String> {
    let mut all: Vec<(&'static str, &hypercore::Node)> = vec![];
    if let Some(b) = &p.block {
        all.extend(b.nodes.iter().map(|n| ("block", n)));
    }
    if let Some(b) = &p.hash {
        all.extend(b.nodes.iter().map(|n| ("hash", n)));
    }
    if let Some(b) = &p.seek {
        all.extend(b.nodes.iter().map(|n| ("seek", n)));
    }
    if let Some(u) = &p.upgrade {
        all.extend(u.nodes.iter().map(|n| ("upgrade", n)));
        all.extend(u.additional_nodes.iter().map(|n| ("additional", n)));
        let msg = scheme::signable(&t.root_hash(len), len, p.fork);
        if !scheme::verify_sig(pk, &msg, &u.signature) {
            return Some(format!("upgrade signature in proof does not verify for length {len} fork {}", p.fork));
        }
    }
    for (sec, n) in all {
        let (i, l, h) = node_parts(n);
        match t.nodes.get(&i) {
            Some(r) if r.size == l && r.hash == h => {}
            Some(r) => return Some(format!("{sec} node {i} in proof: size {l} hash {:02x?}.. expected size {} hash {:02x?}..", &h[..4], r.size, &r.hash[..4])),
            None => return Some(format!("{sec} node {i} in proof is not a full node of the reference tree")),
        }
    }
    None
}

pub fn check_state(core: &mut Core, m: &ListModel, proofs_upto: u64) -> Option<(String, String)> {
    let img = core.image();
    let ds = match format::read_storage(&img) {
        Ok(d) => d,
        Err(e) => return Some(("reader-fails".into(), e)),
    };
    let len = m.len();
    if ds.length != len {
        return Some(("length".into(), format!("files encode length {} expected {}", ds.length, len)));
    }
    let t = scheme::RefTree::build(&m.orig);
    for (idx, r) in &t.nodes {
        match ds.nodes.get(idx) {
            Some((s, h)) if *s == r.size && *h == r.hash => {}
            Some((s, h)) => {
                let what = if *s != r.size { "node-size" } else { "node-hash" };
                return Some((what.into(), format!("tree node {idx}: size {s} hash {:02x?}.. expected size {} hash {:02x?}..", &h[..4], r.size, &r.hash[..4])));
            }
            None => return Some(("node-missing".into(), format!("full tree node {idx} is in neither the tree store nor a pending entry"))),
        }
    }
    for idx in ds.nodes.keys() {
        if !t.nodes.contains_key(idx) {
            return Some(("node-extra".into(), format!("persisted node {idx} is not a full node of a {len}-block tree")));
        }
    }
    let pk = key_pair(KEY_SEED).public.to_bytes();
    if len > 0 {
        let rh = t.root_hash(len);
        if ds.root_hash != rh.to_vec() {
            return Some(("root-hash".into(), format!("stored root hash {:02x?}.. expected {:02x?}..", &ds.root_hash[..4.min(ds.root_hash.len())], &rh[..4])));
        }
        if ds.header.length == len && ds.header.root_hash != rh.to_vec() {
            return Some(("root-hash".into(), "header root hash differs from the reference tree hash".into()));
        }
        let msg = scheme::signable(&rh, len, ds.fork);
        if !scheme::verify_sig(&pk, &msg, &ds.signature) {
            return Some(("signature".into(), format!("stored signature does not verify for length {len} fork {}", ds.fork)));
        }
        if ds.byte_length != Some(m.byte_len()) {
            return Some(("byte-length".into(), format!("root sizes sum to {:?} expected {}", ds.byte_length, m.byte_len())));
        }
    }
    if len > 0 && len <= proofs_upto {
        // proofs as a fresh replica would request them (nodes = 0 with an upgrade from 0), and
        // block-only proofs with the full path
        for i in 0..len {
            let reqs = [
                (Some(RequestBlock { index: i, nodes: 0 }), None, Some(RequestUpgrade { start: 0, length: len })),
                (None, Some(RequestBlock { index: 2 * i, nodes: 0 }), Some(RequestUpgrade { start: 0, length: len })),
            ];
            for (b, h, u) in reqs {
                match guard(core.c().create_proof(b.clone(), h.clone(), None, u.clone())) {
                    Out::Ok(Some(p)) => {
                        if let Some(d) = check_proof_nodes(&p, &t, len, &pk) {
                            return Some(("proof-node".into(), format!("request block={b:?} hash={h:?}: {d}")));
                        }
                        if let Some(bl) = &p.block {
                            if Some(&bl.value) != m.orig.get(i as usize) {
                                return Some(("proof-value".into(), format!("block {i} value in proof differs")));
                            }
                        }
                    }
                    Out::Ok(None) => {}
                    o => return Some(("proof-fails".into(), format!("create_proof block={b:?} hash={h:?}: {}", o.map(|_| ()).brief()))),
                }
            }
        }
        // partial upgrade from every start
        for s in 0..len {
            if let Out::Ok(Some(p)) = guard(core.c().create_proof(None, None, None, Some(RequestUpgrade { start: s, length: len - s }))) {
                if let Some(d) = check_proof_nodes(&p, &t, len, &pk) {
                    return Some(("proof-node".into(), format!("upgrade {s}..{len}: {d}")));
                }
            }
        }
    }
    None
}

impl<'a> Visitor for V<'a> {
    fn visit(&mut self, cx: &mut Cx<'_>) {
        *self.local.entry("states_checked").or_insert(0) += 1;
        if !cx.out.is_ok() {
            return;
        }
        let m = cx.sys.m.w.clone();
        let viol = check_state(&mut cx.sys.wr, &m, self.proofs_upto);
        *self.local.entry("nodes_compared").or_insert(0) += (2 * m.len()).saturating_sub(1);
        if self.states.insert(cx.sys.fingerprint()) {
            *self.local.entry("distinct_states").or_insert(0) += 1;
        }
        self.shapes.insert(m.len() as u128);
        if let Some((clause, detail)) = viol {
            let roots = scheme::full_roots(m.len()).len();
            self.rep.violate(
                &clause,
                format!("last={} roots={} {}", cx.op().kind(), roots, features(cx.hist)),
                format!("after [{}]: {}", hist_brief(cx.hist), detail),
                cx.case("C05", "E1"),
                cx.hist.len(),
            );
        } else if cx.hist.len() >= 3 {
            self.stats.sample(json!(hist_brief(cx.hist)));
        }
    }
}

pub fn run(tier: &str) -> i32 {
    let quick = tier == "quick";
    let rep = Report::new("C05", tier, "exploration");
    let stats = Stats::default();
    let states = FpSet::default();
    let shapes = FpSet::default();
    let mut fam = vec![];
    let mut leaves_total = 0;
    // family A: mixes of single / batch appends and reopen
    for shift in if quick { vec![0u64] } else { vec![0, 3, 5] } {
        let depth = if quick { 5 } else { 6 };
        let af = move |m: &SysModel, _d: usize| -> Vec<Op> {
            let l = m.w.len();
            let b = |k: u64| Op::Batch((0..k).map(|j| blk_at(l + j, shift)).collect());
            vec![Op::Append(blk_at(l, shift)), b(2), b(3), b(5), Op::Reopen]
        };
        let e = E1 { prop: "C05", depth, with_replica: false, prefix: vec![], alphabet: &af, threads: nthreads(), cache: CacheCfg::Off, altered: None };
        let mk = || V { rep: &rep, stats: &stats, states: &states, shapes: &shapes, proofs_upto: if quick { 9 } else { 13 }, local: BTreeMap::new() };
        let (vs, leaves) = e.run(&mk);
        drop(vs);
        leaves_total += leaves;
        fam.push(json!({"family": "append/batch2/batch3/batch5/reopen", "size_rotation_shift": shift, "depth": depth, "complete_histories": leaves}));
    }
    // family B: every length 0..N by singles and by one batch, with a reopen at the end
    let nmax = if quick { 17 } else { 33 };
    let mut hs: Vec<Vec<Op>> = vec![];
    hs.push((0..nmax).map(|i| Op::Append(blk_at(i, 1))).chain([Op::Reopen]).collect());
    for n in 0..=nmax {
        hs.push(vec![Op::Batch((0..n).map(|i| blk_at(i, 2)).collect()), Op::Reopen, Op::Append(blk_at(n, 2))]);
    }
    // batches whose flush writes long runs of consecutive tree nodes
    for n in [70u32, 130, 200] {
        hs.push(vec![Op::BatchN(n), Op::Append(Blk::P(3, 0)), Op::Reopen, Op::BatchN(n / 2), Op::Reopen]);
    }
    if !quick {
        hs.push(vec![Op::BatchN(8193), Op::Reopen, Op::Append(Blk::P(3, 0))]);
        hs.push(vec![Op::BatchN(32769), Op::Append(Blk::P(3, 0)), Op::Reopen]);
    }
    let next = std::sync::atomic::AtomicUsize::new(0);
    let hs = &hs;
    std::thread::scope(|s| {
        for _ in 0..nthreads().min(hs.len()) {
            s.spawn(|| loop {
                let i = next.fetch_add(1, std::sync::atomic::Ordering::Relaxed);
                if i >= hs.len() {
                    break;
                }
                let mut v = V { rep: &rep, stats: &stats, states: &states, shapes: &shapes, proofs_upto: nmax, local: BTreeMap::new() };
                super::c01::run_all_prefixes(&hs[i], &mut v);
            });
        }
    });
    leaves_total += hs.len() as u64;
    fam.push(json!({"family": "every length 0..N by singles and by one batch (+reopen, +append)", "N": nmax, "histories": hs.len()}));
    // replica files: after every step of replica histories with writer growth and reopen, every
    // node the replica has persisted must be a reference node, and the stored signature must
    // verify over the stored roots for the stored length
    {
        struct RV<'a> {
            rep: &'a Report,
            stats: &'a Stats,
        }
        impl<'a> Visitor for RV<'a> {
            fn visit(&mut self, cx: &mut Cx<'_>) {
                let Some(rp) = cx.sys.rp.as_ref() else { return };
                self.stats.add("replica_file_states", 1);
                let img = rp.image();
                let w = cx.sys.m.w.clone();
                let t = scheme::RefTree::build(&w.orig);
                let viol = match format::read_storage(&img) {
                    Err(e) => Some(("reader-fails".to_string(), e)),
                    Ok(ds) => {
                        let mut v = None;
                        for (idx, (sz, h)) in &ds.nodes {
                            match t.nodes.get(idx) {
                                Some(r) if r.size == *sz && r.hash == *h => {}
                                _ => {
                                    v = Some(("replica-node".to_string(), format!("replica persisted node {idx} (size {sz}) which is not the reference node")));
                                    break;
                                }
                            }
                        }
                        if v.is_none() && ds.length > 0 {
                            let roots: Option<Vec<scheme::RNode>> = scheme::full_roots(ds.length).iter().map(|r| ds.nodes.get(r).map(|n| scheme::RNode { index: *r, size: n.0, hash: n.1 })).collect();
                            match roots {
                                Some(rs) => {
                                    let msg = scheme::signable(&scheme::tree_hash(&rs), ds.length, ds.fork);
                                    if !scheme::verify_sig(&key_pair(KEY_SEED).public.to_bytes(), &msg, &ds.signature) {
                                        v = Some(("replica-signature".to_string(), format!("the signature stored by the replica does not verify over its stored roots for length {}", ds.length)));
                                    }
                                }
                                None => v = Some(("replica-roots".to_string(), format!("replica files encode length {} but not all of its roots", ds.length))),
                            }
                        }
                        // nodes once persisted (tree file or pending oplog entries) stay persisted:
                        // these histories never truncate the tree
                        if v.is_none() && cx.op().is_replica_op() {
                            if let Ok(before) = format::read_storage(cx.img_before) {
                                if let Some(lost) = before.nodes.keys().find(|k| !ds.nodes.contains_key(k)) {
                                    v = Some(("replica-node-lost".to_string(), format!("tree node {lost}, persisted before the call, is no longer in the replica's files")));
                                }
                            }
                        }
                        v
                    }
                };
                if let Some((clause, detail)) = viol {
                    self.rep.violate(&clause, format!("last={}", cx.op().kind()), format!("after [{}]: {}", hist_brief(cx.hist), detail), cx.case("C05", "replica-files"), cx.hist.len());
                }
            }
        }
        let af = |m: &SysModel, _d: usize| super::faults::replica_ops_growth(m, 5);
        let depth = if quick { 5 } else { 6 };
        let e = E1 { prop: "C05", depth, with_replica: true, prefix: super::c03::shape(2, 0, None), alphabet: &af, threads: nthreads(), cache: CacheCfg::Off, altered: None };
        let mk = || RV { rep: &rep, stats: &stats };
        let (vs, leaves) = e.run(&mk);
        drop(vs);
        fam.push(json!({"family": "replica files after every step (writer growth, hash requests, replica clear, reopen)", "depth": depth, "complete_histories": leaves}));
    }
    // replicas serve proofs too: for every saturated (sparse) replica state of a few writer logs,
    // every node and signature in every proof the replica is willing to create must be the
    // reference value (declining is fine, a wrong or blank node is not)
    let mut replica_json = vec![];
    for n in if quick { vec![3u64, 5] } else { vec![3, 5, 6, 8] } {
        let whist = super::c03::shape(n, 0, None);
        let tmp = Report::new("C05", tier, "exploration");
        let gs = FpSet::default();
        let r = super::c03::saturate("C05", &whist, vec![super::c03::empty_replica()], super::c03::Seeks::None, true, false, &tmp, &stats, &gs);
        let w = super::c03::build_writer(&whist);
        let pk = key_pair(KEY_SEED).public.to_bytes();
        let idx = std::sync::atomic::AtomicUsize::new(0);
        let kept = &r.kept;
        let tree = scheme::RefTree::build(&w.model.orig);
        drop(w);
        let (treeref, repref, statsref) = (&tree, &rep, &stats);
        std::thread::scope(|s| {
            for _ in 0..nthreads().min(kept.len()).max(1) {
                s.spawn(|| loop {
                    let i = idx.fetch_add(1, std::sync::atomic::Ordering::Relaxed);
                    if i >= kept.len() {
                        break;
                    }
                    let (img, rm) = &kept[i];
                    crate::sup::tick();
                    let (mut rc, out) = Core::from_image(img.clone(), CacheCfg::Off);
                    if !out.is_ok() {
                        continue;
                    }
                    let len = rm.len;
                    let mut served = 0u64;
                    let mut reqs: Vec<(Option<RequestBlock>, Option<RequestBlock>, Option<RequestUpgrade>)> = vec![];
                    for up in [None, if len > 0 { Some(RequestUpgrade { start: 0, length: len }) } else { None }] {
                        for j in 0..(2 * len).saturating_sub(1) {
                            reqs.push((None, Some(RequestBlock { index: j, nodes: 0 }), up.clone()));
                            reqs.push((None, Some(RequestBlock { index: j, nodes: 1 }), up.clone()));
                        }
                        for b in 0..len {
                            reqs.push((Some(RequestBlock { index: b, nodes: 0 }), None, up.clone()));
                        }
                        for st in 0..len {
                            reqs.push((None, None, Some(RequestUpgrade { start: st, length: len - st })));
                        }
                    }
                    for (b, h, u) in reqs {
                        statsref.add("replica_requests", 1);
                        match guard(rc.c().create_proof(b.clone(), h.clone(), None, u.clone())) {
                            Out::Ok(Some(p)) => {
                                served += 1;
                                if let Some(d) = check_proof_nodes(&p, treeref, len, &pk) {
                                    repref.violate(
                                        "replica-proof-node",
                                        format!("replica serves {}", if h.is_some() { "hash" } else if b.is_some() { "block" } else { "upgrade" }),
                                        format!("writer [{}], replica(len {}, held {:?}) answered block={b:?} hash={h:?} upgrade={u:?}: {d}", hist_brief(&whist), rm.len, rm.held),
                                        json!({"prop": "C05", "what": "replica-served", "writer": whist, "replica": {"len": rm.len, "byte_len": rm.byte_len, "held": rm.held}, "image": super::c03::image_hex(img)}),
                                        rm.held.len() + n as usize,
                                    );
                                }
                            }
                            Out::Panic(pm) => {
                                repref.violate("replica-proof-panics", "panic".into(), format!("replica create_proof(block={b:?} hash={h:?} upgrade={u:?}) panicked: {pm}"),
                                    json!({"prop": "C05", "what": "replica-served", "writer": whist, "replica": {"len": rm.len, "byte_len": rm.byte_len, "held": rm.held}, "image": super::c03::image_hex(img)}), 1);
                            }
                            _ => {}
                        }
                    }
                    statsref.add("replica_proofs_served", served);
                });
            }
        });
        replica_json.push(json!({"writer_blocks": n, "replica_states": r.kept.len()}));
    }
    let coverage = json!({
        "evaluations": stats.get("states_checked") + stats.get("replica_requests"),
        "distinct_nontrivial": states.len(),
        "rule": "E1 over single/batch appends and reopen with block sizes rotating through {1,0,2,3,255,256,4096,5000}; in every visited state every full tree node read from the files by the independent layout reader, the root hash, the stored Ed25519 signature and all nodes/signatures in proofs (block / hash / upgrade from every start) are compared with the independent BLAKE2b/flat-tree reference; distinct_nontrivial = distinct exact states",
        "nodes_compared": stats.get("nodes_compared"),
        "distinct_log_lengths": shapes.len(),
        "complete_histories": leaves_total,
        "families": fam,
        "replica_served_proofs": {"shapes": replica_json, "requests": stats.get("replica_requests"), "proofs_served_and_compared": stats.get("replica_proofs_served")},
        "samples": *stats.samples.lock().unwrap_or_else(|e| e.into_inner()),
        "exhaustive": true,
    });
    rep.finish(coverage, vec!["primitives blake2 / ed25519-dalek and the harness's own CRC-32 are the trusted base".into()])
}

pub fn replay(case: &Value, rep: &Report) {
    if case["what"].as_str() == Some("replica-files") {
        // re-run the history; the visitor of run() is local, so reuse the C03 oracle for the state
        super::c03::replay(&json!({"what": "none"}), rep);
        let hist = parse_hist(case);
        let stats = Stats::default();
        let states = FpSet::default();
        let outcomes = FpSet::default();
        let mut v = ObsVisitor::new("C05", rep, &stats, &states, &outcomes, false);
        replay_history(&hist, true, CacheCfg::Off, None, &mut v);
        return;
    }
    if case["what"].as_str() == Some("replica-served") {
        let whist: Vec<Op> = serde_json::from_value(case["writer"].clone()).unwrap_or_default();
        let Some(img) = super::c03::image_from_hex(&case["image"]) else { return };
        let w = super::c03::build_writer(&whist);
        let pk = key_pair(KEY_SEED).public.to_bytes();
        let (mut rc, out) = Core::from_image(img, CacheCfg::Off);
        if !out.is_ok() {
            return;
        }
        let len = rc.c().info().length;
        for up in [None, if len > 0 { Some(RequestUpgrade { start: 0, length: len }) } else { None }] {
            for j in 0..(2 * len).saturating_sub(1) {
                for nodes in [0u64, 1] {
                    if let Out::Ok(Some(p)) = guard(rc.c().create_proof(None, Some(RequestBlock { index: j, nodes }), None, up.clone())) {
                        if let Some(d) = check_proof_nodes(&p, &w.tree, len, &pk) {
                            rep.violate("replica-proof-node", "replay".into(), d, case.clone(), 1);
                            return;
                        }
                    }
                }
            }
        }
        return;
    }
    let hist = parse_hist(case);
    let stats = Stats::default();
    let states = FpSet::default();
    let shapes = FpSet::default();
    let mut v = V { rep, stats: &stats, states: &states, shapes: &shapes, proofs_upto: 40, local: BTreeMap::new() };
    super::c01::run_all_prefixes(&hist, &mut v);
}
