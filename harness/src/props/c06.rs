//! C06 — storage files are readable and writable per the JavaScript on-disk layout.
//! (a) the five-step interop scenario reproduces the 20 golden SHA-256 file hashes, and the
//!     independent reader decodes those JS-certified bytes to the known scenario state;
//! (b) reader direction: for every explored writer / replica history the independent reader
//!     reconstructs from the four files exactly the state the API reports;
//! (c) writer direction: synthetic JS-valid storages laid out by the reference encoder (header
//!     in either slot with every bit pattern, pending entries of every kind, finished and
//!     unfinished atomic batches, stale entries, zero padding) are opened by the crate to the
//!     state the layout rules define, and stay usable.

use super::c03;
use super::common::*;
use crate::cenc::RNodeMsg;
use crate::drv::*;
use crate::env::{self, Image, BITFIELD, DATA, OPLOG, TREE};
use crate::explore::*;
use crate::format::{self, REntry, RHeader};
use crate::report::{FpSet, Report, Stats};
use crate::scheme;
use hypercore::{PartialKeypair, SigningKey, VerifyingKey};
use serde_json::{json, Value};
use std::collections::{BTreeMap, BTreeSet};

const TEST_PUBLIC_KEY: [u8; 32] = [
    0x97, 0x60, 0x6c, 0xaa, 0xd2, 0xb0, 0x8c, 0x1d, 0x5f, 0xe1, 0x64, 0x2e, 0xee, 0xa5, 0x62, 0xcb, 0x91, 0xd6,
    0x55, 0xe2, 0x00, 0xc8, 0xd4, 0x3a, 0x32, 0x09, 0x1d, 0x06, 0x4a, 0x33, 0x1e, 0xe3,
];
const TEST_SECRET_KEY: [u8; 32] = [
    0x27, 0xe6, 0x74, 0x25, 0xc1, 0xff, 0xd1, 0xd9, 0xee, 0x62, 0x5c, 0x96, 0x2b, 0x57, 0x13, 0xc3, 0x51, 0x0b,
    0x71, 0x14, 0x15, 0xf3, 0x31, 0xf6, 0xfa, 0x9e, 0xf2, 0xbf, 0x23, 0x5f, 0x2f, 0xfe,
];

/// golden hashes from tests/js_interop.rs: (bitfield, data, oplog, tree) per step; None = empty
const GOLDEN: [[Option<&str>; 4]; 5] = [
    [None, None, Some("A30BD5326139E8650F3D53CB43291945AE92796ABAEBE1365AC1B0C37D008936"), None],
    [
        Some("0E2E1FF956A39192CBB68D2212288FE75B32733AB0C442B9F0471E254A0382A2"),
        Some("872E4E50CE9990D8B041330C47C9DDD11BEC6B503AE9386A99DA8584E9BB12C4"),
        Some("C65A6867991D29FCF98B4E4549C1039CB5B3C63D891BA1EA4F0BB47211BA4B05"),
        Some("8577B24ADC763F65D562CD11204F938229AD47F27915B0821C46A0470B80813A"),
    ],
    [
        Some("DEC1593A7456C8C9407B9B8B9C89682DFFF33C3892BCC9D9F06956FEE0A1B949"),
        Some("99EB5BC150A1102A7E50D15F90594660010B7FE719D54129065D1D417AA5015A"),
        Some("5DCE3C7C86B0E129B32E5A07CA3DF668006A42F9D75399D6E4DB3F18256B8468"),
        Some("38788609A8634DC8D34F9AE723F3169ADB20768ACFDFF266A43B7E217750DD1E"),
    ],
    [
        Some("9B844E9378A7D13D6CDD4C1FF12FB313013E5CC472C6CB46497033563FE6B8F1"),
        Some("AF3AC31CFBE1733C62496CF8E856D5F1EFB4B06CBF1E74204221C89E2F3E1CDE"),
        Some("46E01E9CECDF6E7EA85807F65C5F3CEED96583F3BF97BC6835A6DA05E39FE8E9"),
        Some("26339A21D606A1F731B90E8001030651D48378116B06A9C1EF87E2538194C2C6"),
    ],
    [
        Some("40C9CED82AE0B7A397C9FDD14EEB7F70B74E8F1229F3ED931852591972DDC3E0"),
        Some("D9FFCCEEE9109751F034ECDAE328672956B90A6E0B409C3173741B8A5D0E75AB"),
        Some("803384F10871FB60E53A7F833E6E1E9729C6D040D960164077963092BBEBA274"),
        Some("26339A21D606A1F731B90E8001030651D48378116B06A9C1EF87E2538194C2C6"),
    ],
];

fn test_key() -> PartialKeypair {
    let sk = SigningKey::from_bytes(&TEST_SECRET_KEY);
    PartialKeypair {
        public: VerifyingKey::from_bytes(&TEST_PUBLIC_KEY).unwrap(),
        secret: Some(sk),
    }
}

fn golden_steps() -> Vec<Vec<Op>> {
    let l = |s: &[u8]| Blk::L(s.to_vec());
    vec![
        vec![],
        vec![Op::Batch(vec![l(b"Hello"), l(b"World")])],
        vec![
            Op::Get(0),
            Op::Get(1),
            Op::Append(l(b"first")),
            Op::Batch(vec![l(b"second"), l(b"third")]),
            Op::Append(Blk::L(vec![0x61; 4096 * 3])),
            Op::Batch(vec![]),
            Op::Get(2),
            Op::Get(3),
            Op::Get(4),
            Op::Get(5),
        ],
        (0..5u8).map(|i| Op::Append(Blk::L(vec![i]))).collect(),
        vec![Op::Clear(5, 6), Op::Clear(7, 9), Op::Get(5), Op::Get(7), Op::Get(8), Op::Get(4)],
    ]
}

/// files order in GOLDEN rows: bitfield, data, oplog, tree
fn hashes(img: &Image) -> [Option<String>; 4] {
    let h = |v: &Vec<u8>| if v.is_empty() { None } else { Some(format::sha256_hex(v)) };
    [h(&img[BITFIELD]), h(&img[DATA]), h(&img[OPLOG]), h(&img[TREE])]
}

fn golden(rep: &Report, stats: &Stats) -> Value {
    let w = env::new_world(env::empty_image());
    let mut m = ListModel::new();
    let mut matched = 0;
    let names = ["bitfield", "data", "oplog", "tree"];
    for (si, ops) in golden_steps().iter().enumerate() {
        // each step runs on a freshly opened core
        let opened = if si == 0 { create_on(&w, test_key(), CacheCfg::Off) } else { open_on(&w, CacheCfg::Off) };
        let mut core = match opened {
            Out::Ok(c) => Core { w: w.clone(), core: Some(c), cache: CacheCfg::Off },
            o => {
                rep.violate("golden-open-fails", format!("step={}", si + 1), format!("interop step {}: {}", si + 1, o.map(|_| ()).brief()), json!({"prop":"C06","what":"golden"}), si);
                break;
            }
        };
        for op in ops {
            let before = SysModel { w: m.clone(), r: None };
            let n = m.len();
            let out = exec_writer(&mut core, op, n);
            m.apply(op);
            let after = SysModel { w: m.clone(), r: None };
            if let Some((c, d)) = check_result(op, &out, &before, &after) {
                rep.violate(&format!("golden-step:{c}"), format!("step={}", si + 1), format!("interop step {}: {}", si + 1, d), json!({"prop":"C06","what":"golden"}), si);
            }
        }
        drop(core);
        let img = env::image_of(&w);
        let hs = hashes(&img);
        for f in 0..4 {
            stats.add("golden_hashes_compared", 1);
            let exp = GOLDEN[si][f].map(|s| s.to_string());
            if hs[f] == exp {
                matched += 1;
            } else {
                rep.violate(
                    "golden-hash",
                    format!("step={} file={}", si + 1, names[f]),
                    format!("interop step {} file {}: SHA-256 {:?} expected {:?}", si + 1, names[f], hs[f], exp),
                    json!({"prop":"C06","what":"golden"}),
                    si,
                );
            }
        }
        // the independent reader on these JS-certified bytes must see the scenario state
        match format::read_storage(&img) {
            Ok(ds) => {
                if let Some(d) = diff_disk(&ds, &m, None, Some(&TEST_PUBLIC_KEY)) {
                    // this is the anchor of the reference itself: a disagreement here while the
                    // golden hashes match means the reference reader is wrong -> machinery error
                    eprintln!("harness: reference reader disagrees with the golden scenario state at step {}: {}", si + 1, d);
                    if hs.iter().zip(GOLDEN[si].iter()).all(|(a, b)| *a == b.map(|s| s.to_string())) {
                        std::process::exit(2);
                    }
                }
            }
            Err(e) => {
                eprintln!("harness: reference reader cannot read the golden files at step {}: {e}", si + 1);
                std::process::exit(2);
            }
        }
    }
    json!({"steps": 5, "golden_hashes": 20, "matched": matched})
}

/// Compare what the independent reader got from the files with the model (writer or replica).
fn diff_disk(ds: &format::DiskState, w: &ListModel, r: Option<&ReplicaModel>, pk: Option<&[u8; 32]>) -> Option<String> {
    let default_pk = key_pair(KEY_SEED).public.to_bytes();
    let pk = pk.unwrap_or(&default_pk);
    if &ds.header.public_key != pk || &ds.header.key != pk {
        return Some("public key in the header differs from the core's key".into());
    }
    let (len, blen, writable) = match r {
        Some(r) => (r.len, r.byte_len, false),
        None => (w.len(), w.byte_len(), w.writable),
    };
    if ds.header.secret_key.is_some() != writable {
        return Some(format!("secret key present in files: {} but core writable: {}", ds.header.secret_key.is_some(), writable));
    }
    if ds.fork != 0 {
        return Some(format!("fork {} expected 0", ds.fork));
    }
    if ds.length != len {
        return Some(format!("files encode length {} expected {}", ds.length, len));
    }
    if len > 0 && ds.byte_length != Some(blen) {
        return Some(format!("files encode byte length {:?} expected {}", ds.byte_length, blen));
    }
    let exp: BTreeSet<u64> = match r {
        Some(r) => r.held.clone(),
        None => (0..w.len()).filter(|i| w.blocks[*i as usize].is_some()).collect(),
    };
    if ds.present != exp {
        return Some(format!("files mark blocks {:?} present, expected {:?}", ds.present, exp));
    }
    for i in &exp {
        match ds.blocks.get(i) {
            Some(Ok(b)) if *b == w.orig[*i as usize] => {}
            Some(Ok(b)) => return Some(format!("block {i} read from the data file is {} bytes {:?}.., expected {:?}..", b.len(), &b[..b.len().min(4)], &w.orig[*i as usize][..w.orig[*i as usize].len().min(4)])),
            Some(Err(e)) => return Some(format!("block {i} cannot be located from the files: {e}")),
            None => return Some(format!("block {i} missing in the reader's view")),
        }
    }
    None
}

struct ReaderVisitor<'a> {
    rep: &'a Report,
    stats: &'a Stats,
    states: &'a FpSet,
    local: BTreeMap<String, u64>,
}
impl<'a> Drop for ReaderVisitor<'a> {
    fn drop(&mut self) {
        for (k, v) in &self.local {
            self.stats.add(k, *v);
        }
    }
}
impl<'a> Visitor for ReaderVisitor<'a> {
    fn visit(&mut self, cx: &mut Cx<'_>) {
        if !cx.out.is_ok() && !matches!(cx.out, Out::Err(_)) {
            return;
        }
        let op = cx.op().clone();
        let m = cx.sys.m.clone();
        let replica = op.is_replica_op();
        let img = cx.sys.target_ref(&op).image();
        *self.local.entry("dumps_read".into()).or_insert(0) += 1;
        if self.states.insert(env::fp_image(&img, b"")) {
            *self.local.entry("distinct_images".into()).or_insert(0) += 1;
        }
        let viol = match format::read_storage(&img) {
            Err(e) => Some(("reader-fails".to_string(), e)),
            Ok(ds) => {
                for k in &ds.entry_kinds {
                    *self.local.entry(format!("pending-entry:{k}")).or_insert(0) += 1;
                }
                *self.local.entry(format!("header-slot:{} bit:{}", ds.header_slot, ds.header_bit)).or_insert(0) += 1;
                let mut v = diff_disk(&ds, &m.w, if replica { m.r.as_ref() } else { None }, None).map(|d| ("reader-disagrees".to_string(), d));
                if v.is_none() {
                    // ... and exactly what the API of the live core reports
                    let core = cx.sys.target(&op);
                    if core.core.is_some() {
                        let info = core.c().info();
                        if info.length != ds.length || (ds.length > 0 && Some(info.byte_length) != ds.byte_length) {
                            v = Some(("reader-vs-api".to_string(), format!("files encode length {} / byte length {:?}, the API reports {} / {}", ds.length, ds.byte_length, info.length, info.byte_length)));
                        } else {
                            for i in 0..ds.length {
                                if core.c().has(i) != ds.present.contains(&i) {
                                    v = Some(("reader-vs-api".to_string(), format!("has({i}) = {} but the files say {}", core.c().has(i), ds.present.contains(&i))));
                                    break;
                                }
                            }
                        }
                    }
                }
                v
            }
        };
        if let Some((clause, detail)) = viol {
            self.rep.violate(
                &clause,
                format!("last={} {}", op.kind(), features(cx.hist)),
                format!("after [{}]: {}", hist_brief(cx.hist), detail),
                cx.case("C06", "reader"),
                cx.hist.len(),
            );
        }
    }
}

// ---- (c) synthetic storages ---------------------------------------------------------------

#[derive(Debug, Clone, serde::Serialize, serde::Deserialize)]
pub struct Synth {
    /// total blocks appended
    pub n: u64,
    /// blocks folded into header / tree / bitfield files
    pub flushed: u64,
    /// how the remaining blocks are logged: sizes of consecutive append entries
    pub appends: Vec<u64>,
    /// a clear entry (start, len) after the appends
    pub clear: Option<(u64, u64)>,
    /// writer (secret key in header) or replica
    pub writable: bool,
    /// 0: header in slot 0 only, 1: slot 1 only, 2..=5: both slots with bits (b0,b1) = (k-2)&1, (k-2)>>1
    pub slots: u8,
    /// 0 nothing, 1 zero padding, 2 unfinished atomic batch (2 partial entries), 3 finished
    /// atomic batch replacing the last append entry split in two, 4 stale entry with other bit
    pub tail: u8,
    /// replica-style pending entries instead of appends: 1 = upgrade-only then block-only,
    /// 2 = nodes-only
    pub replica_entries: u8,
}

fn block_bytes(i: u64) -> Vec<u8> {
    Blk::P(((i + 1) % 4) as u32, 3).bytes(i)
}

fn msg(n: &scheme::RNode) -> RNodeMsg {
    RNodeMsg { index: n.index, size: n.size, hash: n.hash }
}

fn sign(len: u64, t: &scheme::RefTree) -> Vec<u8> {
    use ed25519_dalek::Signer;
    if len == 0 {
        return vec![];
    }
    let sk = key_pair(KEY_SEED).secret.unwrap();
    sk.sign(&scheme::signable(&t.root_hash(len), len, 0)).to_bytes().to_vec()
}

/// Lay the storage out by the layout rules; returns the image and the expected state.
pub fn build_synth(s: &Synth) -> (Image, ListModel, ReplicaModel, bool) {
    let blocks: Vec<Vec<u8>> = (0..s.n).map(block_bytes).collect();
    let t = scheme::RefTree::build(&blocks);
    let kp = key_pair(KEY_SEED);
    let pk = kp.public.to_bytes();
    let mut sk64 = [0u8; 64];
    sk64[..32].copy_from_slice(&kp.secret.as_ref().unwrap().to_bytes());
    sk64[32..].copy_from_slice(&pk);
    let f = s.flushed;
    let header = |len: u64, contig: u64| RHeader {
        key: pk,
        public_key: pk,
        secret_key: if s.writable { Some(sk64) } else { None },
        fork: 0,
        length: len,
        root_hash: if len > 0 { t.root_hash(len).to_vec() } else { vec![] },
        signature: sign(len, &t),
        contiguous_length: contig,
    };
    let mut img = env::empty_image();
    // expected model
    let mut m = ListModel::new();
    for b in &blocks {
        m.sizes.push(b.len() as u64);
        m.orig.push(b.clone());
        m.blocks.push(None);
    }
    m.writable = s.writable;
    let mut present: BTreeSet<u64> = BTreeSet::new();
    // flushed part
    for n in t.nodes.values() {
        if scheme::right_span(n.index) < 2 * f {
            format::put_tree_node(&mut img[TREE], n);
        }
    }
    let mut data = vec![];
    for b in &blocks {
        data.extend_from_slice(b);
    }
    if s.writable {
        img[DATA] = data.clone();
        format::set_bits(&mut img[BITFIELD], 0, f, true);
        present.extend(0..f);
    } else if s.replica_entries == 0 {
        // a replica that holds the flushed blocks
        img[DATA] = data[..blocks[..f as usize].iter().map(|b| b.len()).sum::<usize>()].to_vec();
        format::set_bits(&mut img[BITFIELD], 0, f, true);
        present.extend(0..f);
    }
    // entries
    let mut entries: Vec<REntry> = vec![];
    let mut len_after = f;
    let new_nodes = |a: u64, b: u64| -> Vec<RNodeMsg> {
        t.nodes
            .values()
            .filter(|n| scheme::right_span(n.index) >= 2 * a && scheme::right_span(n.index) < 2 * b)
            .map(msg)
            .collect()
    };
    if s.replica_entries == 0 {
        for &k in &s.appends {
            let a = len_after;
            let b = a + k;
            entries.push(REntry { nodes: new_nodes(a, b), upgrade: Some((0, a, b, sign(b, &t))), bitfield: Some((false, a, k)) });
            present.extend(a..b);
            len_after = b;
        }
        if let Some((st, l)) = s.clear {
            entries.push(REntry { nodes: vec![], upgrade: None, bitfield: Some((true, st, l)) });
            for i in st..st + l {
                present.remove(&i);
            }
        }
    } else if s.replica_entries == 1 {
        // upgrade-only f -> n, then a block-only entry for block n-1
        let roots: Vec<RNodeMsg> = t.roots(s.n).iter().map(msg).collect();
        entries.push(REntry { nodes: roots, upgrade: Some((0, f, s.n, sign(s.n, &t))), bitfield: None });
        len_after = s.n;
        if s.n > 0 {
            let i = s.n - 1;
            // path nodes of block i up to its root
            let mut nodes = vec![msg(&t.nodes[&(2 * i)])];
            let mut x = 2 * i;
            while !scheme::full_roots(s.n).contains(&x) {
                nodes.push(msg(&t.nodes[&scheme::sibling(x)]));
                x = scheme::parent(x);
                nodes.push(msg(&t.nodes[&x]));
            }
            entries.push(REntry { nodes, upgrade: None, bitfield: Some((false, i, 1)) });
            // the block's bytes sit at its offset in the data store
            let off = t.byte_offset(2 * i) as usize;
            let b = &blocks[i as usize];
            if img[DATA].len() < off + b.len() {
                img[DATA].resize(off + b.len(), 0);
            }
            img[DATA][off..off + b.len()].copy_from_slice(b);
            present.insert(i);
        }
    } else {
        // nodes-only entry: hashes of the first root's children (no state change besides nodes)
        let roots: Vec<RNodeMsg> = t.roots(f).iter().map(msg).collect();
        if !roots.is_empty() {
            entries.push(REntry { nodes: roots, upgrade: None, bitfield: None });
        }
    }
    for i in &present {
        if (*i as usize) < m.blocks.len() {
            m.blocks[*i as usize] = Some(blocks[*i as usize].clone());
        }
    }
    // expected length: the model keeps n blocks; blocks beyond len_after do not exist yet
    m.blocks.truncate(len_after as usize);
    m.sizes.truncate(len_after as usize);
    m.orig.truncate(len_after as usize);
    let rm = ReplicaModel { len: len_after, byte_len: m.byte_len(), held: present.iter().cloned().filter(|i| *i < len_after).collect() };
    // header slots
    let cur = format::encode_header(&header(f, if s.writable || s.replica_entries == 0 { f } else { 0 }));
    let old = format::encode_header(&header(0, 0));
    let (b0, b1, which): (Option<bool>, Option<bool>, usize) = match s.slots {
        0 => (Some(true), None, 0),
        1 => (None, Some(false), 1),
        k => {
            let b0 = (k - 2) & 1 == 1;
            let b1 = (k - 2) >> 1 == 1;
            (Some(b0), Some(b1), if b0 != b1 { 1 } else { 0 })
        }
    };
    let ebit = match (b0, b1) {
        (Some(a), Some(b)) => a != b,
        (Some(_), None) => false,
        (None, Some(_)) => true,
        _ => false,
    };
    let mut oplog = vec![];
    if let Some(b) = b0 {
        let rec = format::frame(if which == 0 { &cur } else { &old }, b, false);
        oplog.extend_from_slice(&rec);
    }
    if let Some(b) = b1 {
        oplog.resize(format::SLOT, 0);
        let rec = format::frame(if which == 1 { &cur } else { &old }, b, false);
        oplog.extend_from_slice(&rec);
    }
    let mut hang_risk = false;
    // every header flush of the JavaScript implementation truncates the file to the entry
    // offset, so a JS-written oplog is never shorter than 8192 bytes
    oplog.resize(format::ENTRIES, 0);
    if !entries.is_empty() || s.tail != 0 {
        let ne = entries.len();
        for (k, e) in entries.iter().enumerate() {
            // tail 3: the last two entries form a finished atomic batch
            let partial = s.tail == 3 && ne >= 2 && k == ne - 2;
            oplog.extend_from_slice(&format::frame(&format::encode_entry(e), ebit, partial));
        }
        match s.tail {
            1 => oplog.extend_from_slice(&[0u8; 64]),
            2 => {
                // unfinished atomic batch: two partial entries that must not be applied
                let bogus = REntry { nodes: vec![], upgrade: None, bitfield: Some((true, 0, len_after.max(1))) };
                for _ in 0..2 {
                    oplog.extend_from_slice(&format::frame(&format::encode_entry(&bogus), ebit, true));
                }
                hang_risk = true;
            }
            4 => {
                // stale entry of the previous header generation: not part of the log
                let bogus = REntry { nodes: vec![], upgrade: None, bitfield: Some((true, 0, len_after.max(1))) };
                oplog.extend_from_slice(&format::frame(&format::encode_entry(&bogus), !ebit, false));
            }
            _ => {}
        }
    }
    img[OPLOG] = oplog;
    (img, m, rm, hang_risk)
}

pub fn synth_cases(quick: bool) -> Vec<Synth> {
    let mut v = vec![];
    let nmax = if quick { 4 } else { 5 };
    for n in 0..=nmax {
        for flushed in 0..=n {
            let rest = n - flushed;
            let mut splits: Vec<Vec<u64>> = vec![];
            if rest == 0 {
                splits.push(vec![]);
            } else {
                splits.push(vec![rest]);
                splits.push(vec![1; rest as usize]);
                if rest >= 3 {
                    splits.push(vec![1, rest - 1]);
                }
            }
            splits.dedup();
            for appends in splits {
                if appends.len() > 3 {
                    continue;
                }
                let clears: Vec<Option<(u64, u64)>> = if n > 0 { vec![None, Some((0, 1)), Some((n - 1, 2))] } else { vec![None] };
                for clear in clears {
                    for slots in 0..6u8 {
                        for tail in 0..5u8 {
                            if tail == 3 && appends.len() + clear.iter().count() < 2 {
                                continue;
                            }
                            if quick && (slots + tail + n as u8) % 2 == 1 && n > 2 {
                                continue;
                            }
                            v.push(Synth { n, flushed, appends: appends.clone(), clear, writable: true, slots, tail, replica_entries: 0 });
                        }
                    }
                }
            }
            // replica storages
            for re in 1..=2u8 {
                for slots in [0u8, 1, 3, 4] {
                    for tail in [0u8, 2, 4] {
                        if re == 1 && n == flushed {
                            continue;
                        }
                        v.push(Synth { n, flushed, appends: vec![], clear: None, writable: false, slots, tail, replica_entries: re });
                    }
                }
            }
        }
    }
    v
}

fn check_synth(s: &Synth, rep: &Report, stats: &Stats) {
    let (img, m, rm, _hang) = build_synth(s);
    // the reference reader must agree with the reference writer (self-consistency of the oracle)
    match format::read_storage(&img) {
        Ok(ds) => {
            if let Some(d) = diff_disk(&ds, &m, if s.writable { None } else { Some(&rm) }, None) {
                eprintln!("harness: reference reader and reference writer disagree on {s:?}: {d}");
                std::process::exit(2);
            }
        }
        Err(e) => {
            eprintln!("harness: reference reader cannot read the reference writer's storage {s:?}: {e}");
            std::process::exit(2);
        }
    }
    stats.add("synthetic_storages", 1);
    let sig = format!(
        "slots={} tail={} kind={} pending={}",
        match s.slots { 0 => "slot0-only", 1 => "slot1-only", _ => "both" },
        ["none", "zero-padding", "unfinished-atomic-batch", "finished-atomic-batch", "stale-entry"][s.tail as usize],
        if s.writable { "writer" } else if s.replica_entries == 1 { "replica:upgrade+block" } else { "replica:nodes-only" },
        if s.appends.is_empty() && s.clear.is_none() && s.replica_entries == 0 { "none" } else { "some" },
    );
    let case = json!({"prop": "C06", "what": "synth", "synth": s});
    let fail = |clause: &str, detail: String| {
        rep.violate(clause, sig.clone(), format!("synthetic storage {s:?}: {detail}"), case.clone(), (s.n * 10 + s.tail as u64 + s.slots as u64) as usize);
    };
    let (mut core, out) = Core::from_image(img, CacheCfg::Off);
    match out {
        Out::Ok(()) => {}
        Out::Err(e) => return fail("js-storage-open-fails", format!("open returned Err({e})")),
        Out::Panic(p) => return fail("js-storage-open-panics", p),
    }
    let len = if s.writable { m.len() } else { rm.len };
    let (hp, gp) = probes_for(len.max(s.n), false);
    let obs = observe(core.c(), &hp, &gp);
    let exp = if s.writable { expect_writer(&m, &hp, &gp) } else { expect_replica(&m, &rm, &hp, &gp) };
    if let Some((c, d)) = diff_obs(&obs, &exp, &hp, &gp, false) {
        return fail(&format!("js-storage-state:{c}"), d);
    }
    // a following append + reopen must still satisfy the C01 oracle
    if s.writable {
        let mut m2 = m.clone();
        for op in [Op::Append(Blk::P(2, 9)), Op::Reopen, Op::Append(Blk::P(1, 9)), Op::Reopen] {
            let before = SysModel { w: m2.clone(), r: None };
            let n = m2.len();
            let out = exec_writer(&mut core, &op, n);
            m2.apply(&op);
            let after = SysModel { w: m2.clone(), r: None };
            let mut v = check_result(&op, &out, &before, &after);
            if v.is_none() && core.core.is_some() {
                let (hp, gp) = probes_for(m2.len(), false);
                let obs = observe(core.c(), &hp, &gp);
                v = diff_obs(&obs, &expect_writer(&m2, &hp, &gp), &hp, &gp, false);
            }
            if let Some((c, d)) = v {
                return fail(&format!("js-storage-then:{c}"), format!("after {}: {}", op.brief(), d));
            }
        }
    }
}

pub fn run(tier: &str) -> i32 {
    let quick = tier == "quick";
    let rep = Report::new("C06", tier, "exploration");
    let stats = Stats::default();
    let states = FpSet::default();
    // (a)
    let g = golden(&rep, &stats);
    // (b) reader direction over writer histories and replica histories
    let mut fams = vec![];
    let wf: Vec<(&str, usize, Alpha)> = vec![
        ("full-alphabet", if quick { 3 } else { 4 }, Alpha::full()),
        ("medium-alphabet", if quick { 5 } else { 6 }, { let mut a = Alpha::medium(); a.make_read_only = true; a }),
        ("small-alphabet", if quick { 7 } else { 8 }, Alpha::small()),
    ];
    for (name, depth, alpha) in wf {
        let a2 = alpha.clone();
        let af = move |m: &SysModel, _d: usize| a2.ops(m);
        let e = E1 { prop: "C06", depth, with_replica: false, prefix: vec![], alphabet: &af, threads: nthreads(), cache: CacheCfg::Off, altered: None };
        let mk = || ReaderVisitor { rep: &rep, stats: &stats, states: &states, local: BTreeMap::new() };
        let (vs, leaves) = e.run(&mk);
        drop(vs);
        fams.push(json!({"part": "reader/writer-histories", "family": name, "depth": depth, "complete_histories": leaves}));
    }
    for (name, prefix, depth) in [
        ("replica-of-3", c03::shape(3, 0, None), if quick { 5 } else { 6 }),
        ("replica-of-5-cleared-1", c03::shape(5, 0, Some(1)), if quick { 4 } else { 5 }),
        ("replica-of-6-batch", c03::shape(6, 1, None), if quick { 4 } else { 5 }),
    ] {
        let af = |m: &SysModel, _d: usize| super::faults::replica_ops_growth(m, 8);
        let e = E1 { prop: "C06", depth, with_replica: true, prefix: prefix.clone(), alphabet: &af, threads: nthreads(), cache: CacheCfg::Off, altered: None };
        let mk = || ReaderVisitor { rep: &rep, stats: &stats, states: &states, local: BTreeMap::new() };
        let (vs, leaves) = e.run(&mk);
        drop(vs);
        fams.push(json!({"part": "reader/replica-histories", "family": name, "depth": depth, "complete_histories": leaves}));
    }
    // (b') page scale: bitfield files of more than one 4096-byte page, trees of 65k nodes
    {
        let mut bigs: Vec<Vec<Op>> = vec![
            vec![Op::BatchN(8193), Op::Clear(8190, 8194), Op::Reopen, Op::Append(Blk::P(3, 1)), Op::Reopen],
            vec![Op::BatchN(32769), Op::Clear(32766, 32770), Op::Append(Blk::P(2, 1)), Op::Reopen, Op::Append(Blk::P(1, 1)), Op::Reopen, Op::Clear(0, 1), Op::Reopen],
        ];
        if !quick {
            bigs.push(vec![Op::BatchN(32768), Op::BatchN(32768), Op::Append(Blk::P(3, 1)), Op::Clear(65534, 65538), Op::Reopen, Op::Clear(100, 40000), Op::Reopen]);
            bigs.push(vec![Op::BatchN(40000), Op::MakeReadOnly, Op::Clear(32760, 32780), Op::Reopen]);
        }
        let nb = bigs.len();
        let idx = std::sync::atomic::AtomicUsize::new(0);
        let bigs_ref = &bigs;
        std::thread::scope(|sc| {
            for _ in 0..nthreads().min(nb) {
                sc.spawn(|| loop {
                    let i = idx.fetch_add(1, std::sync::atomic::Ordering::Relaxed);
                    if i >= nb {
                        break;
                    }
                    let mut v = ReaderVisitor { rep: &rep, stats: &stats, states: &states, local: BTreeMap::new() };
                    super::c01::run_all_prefixes(&bigs_ref[i], &mut v);
                });
            }
        });
        fams.push(json!({"part": "reader/page-scale-histories", "histories": nb}));
    }
    // (c)
    let cases = synth_cases(quick);
    let idx = std::sync::atomic::AtomicUsize::new(0);
    let cases_ref = &cases;
    std::thread::scope(|s| {
        for _ in 0..nthreads().min(cases_ref.len()) {
            s.spawn(|| loop {
                let i = idx.fetch_add(1, std::sync::atomic::Ordering::Relaxed);
                if i >= cases_ref.len() {
                    crate::sup::clear_case();
                    break;
                }
                crate::sup::set_case(&json!({"prop": "C06", "what": "synth", "synth": cases_ref[i]}).to_string());
                check_synth(&cases_ref[i], &rep, &stats);
            });
        }
    });
    let counters = stats.counters_json();
    let coverage = json!({
        "evaluations": stats.get("dumps_read") + stats.get("synthetic_storages") + stats.get("golden_hashes_compared"),
        "distinct_nontrivial": states.len() + cases.len(),
        "rule": "(a) 5 interop steps -> 20 golden SHA-256 comparisons + reference reader on those bytes; (b) after every step of every explored writer/replica history the four files are decoded by the independent layout reader and compared with the model/API state (key, writability, fork, length, byte length, present set, block bytes); (c) every synthetic storage (n<=N blocks x flushed prefix x pending-entry split x clear x header-slot/bit pattern x tail: zero padding / unfinished atomic batch / finished atomic batch / stale entry; writer and replica kinds) is opened by the crate and compared with the layout-defined state, then appended to and reopened; distinct_nontrivial = distinct dumped images + synthetic storages",
        "golden": g,
        "reader_families": fams,
        "synthetic_storages": cases.len(),
        "counters": counters,
        "samples": [
            "golden step 3: open; get 0,1; append first; batch [second, third]; append 12288 x 'a'; batch []",
            format!("{:?}", cases.get(cases.len() / 2)),
            "reader after [append[1]; batch[1,2]; clear(0,1); reopen]"
        ],
        "exhaustive": true,
    });
    rep.finish(
        coverage,
        vec![
            "user-data sections (entry flag 1, header userData) are never produced by the crate and treated as empty".into(),
            "the reference is anchored to JavaScript by the 20 golden hashes of tests/js_interop.rs".into(),
        ],
    )
}

pub fn replay(case: &Value, rep: &Report) {
    let stats = Stats::default();
    match case["what"].as_str().unwrap_or("") {
        "synth" => {
            if let Ok(s) = serde_json::from_value::<Synth>(case["synth"].clone()) {
                check_synth(&s, rep, &stats);
            }
        }
        "golden" => {
            golden(rep, &stats);
        }
        _ => {
            let hist = parse_hist(case);
            let states = FpSet::default();
            let mut v = ReaderVisitor { rep, stats: &stats, states: &states, local: BTreeMap::new() };
            let with_replica = hist.iter().any(|o| o.is_replica_op());
            replay_history(&hist, with_replica, CacheCfg::Off, None, &mut v);
        }
    }
}
