//! C07 — a torn final write is tolerated like a clean crash.
use super::faults::*;
use crate::report::Report;
use serde_json::Value;

pub fn cfg(tier: &str) -> FaultCfg {
    FaultCfg {
        prop: "C07",
        crash: false,
        torn: if tier == "quick" { TornMode::Boundaries } else { TornMode::EveryOplogByte },
        io_faults: false,
        with_contig: false,
        cont_depth: 2,
        double_fault: false,
        check_secret: false,
        thin_over: 0,
    }
}

pub fn run(tier: &str) -> i32 {
    run_fault_property(
        "C07",
        tier,
        "fault_enumeration",
        cfg(tier),
        fault_families(tier, -1),
        vec!["the torn write leaves a byte prefix of the data in place; earlier operations are intact".into()],
    )
}

pub fn replay(case: &Value, rep: &Report) {
    replay_fault("C07", cfg("thorough"), case, rep)
}
