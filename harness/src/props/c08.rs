//! C08 — has() and contiguous_length are exact for large, sparse and reopened cores.
//! (1) all small writer histories and replica saturations with the contiguous length compared,
//!     including after every crash point of the last call;
//! (2) page-scale macro histories (tens of thousands of blocks, clears straddling 8192 / 32768 /
//!     65536) with crash recovery at every journal prefix, has() probed on all indices;
//! (3) sparse replicas of a 70 000-block writer fetching far-apart indices in every order.

use super::common::*;
use super::faults::*;
use crate::drv::*;
use crate::explore::*;
use crate::report::{FpSet, Report, Stats};
use serde_json::{json, Value};
use std::sync::atomic::{AtomicUsize, Ordering};

pub struct Both<A: Visitor, B: Visitor>(pub A, pub B);
impl<A: Visitor, B: Visitor> Visitor for Both<A, B> {
    fn visit(&mut self, cx: &mut Cx<'_>) {
        self.0.visit(cx);
        self.1.visit(cx);
    }
}

fn fcfg() -> FaultCfg {
    FaultCfg {
        prop: "C08",
        crash: true,
        torn: TornMode::Off,
        io_faults: false,
        with_contig: true,
        cont_depth: 1,
        double_fault: false,
        check_secret: false,
        thin_over: 0,
    }
}

fn macro_alpha(m: &SysModel, cap: u64, quick: bool) -> Vec<Op> {
    let len = m.w.len();
    let mut v = vec![];
    let sizes: &[u32] = if quick { &[8193, 32769] } else { &[8191, 8193, 24576, 32767, 32769] };
    for &n in sizes {
        if len + n as u64 <= cap {
            v.push(Op::BatchN(n));
        }
    }
    if len > 0 {
        let mut cl: Vec<(u64, u64)> = vec![(len - 1, len + 1)];
        for b in [8192u64, 32768, 65536] {
            if len > b - 2 {
                cl.push((b - 2, b + 2));
            }
        }
        if len > 3 {
            cl.push((0, 2));
        }
        if !quick && len > 40000 {
            cl.push((8000, 40000)); // spans a whole page boundary region
        }
        for (s, e) in cl {
            if s < len {
                v.push(Op::Clear(s, e));
            }
        }
    }
    v.push(Op::Reopen);
    v
}

const FAR_IDX: [u64; 9] = [0, 8191, 8192, 32767, 32768, 40960, 65535, 65536, 69999];

#[derive(Clone, Copy, Debug, PartialEq, Eq, serde::Serialize, serde::Deserialize)]
pub enum RAct {
    Fetch(u64),
    Clear(u64, u64),
}

const R_CLEARS: [(u64, u64); 3] = [(100, 40961), (8192, 32769), (65000, 70040)];

/// one sparse-replica action sequence on a fresh replica of the 70 000-block writer
fn run_sparse_seq(w: &mut super::c03::Writer, img0: &crate::env::Image, seq: &[RAct], rep: &Report) -> u64 {
    let n = w.model.len();
    let mut rm = ReplicaModel::default();
    let mut steps = 0;
    // the replica instance stays live across the actions (pages that were never allocated in
    // memory stay unallocated); after every action a second instance is opened on a copy of the
    // files to check the persisted state as well
    let (mut rc, out) = Core::from_image(img0.clone(), CacheCfg::Off);
    if !out.is_ok() {
        return 0;
    }
    for (k, act) in seq.iter().enumerate() {
        steps += 1;
        let mut viol: Option<(String, String)> = None;
        match act {
            RAct::Fetch(bi) => {
                let req = Req { block: Some(*bi), up: if rm.len < n { Some(n) } else { None }, ..Default::default() };
                let mut res = super::c03::StepResult { image_after: None, model_after: rm.clone(), viol: None, proof: None, accepted: false };
                super::c03::step_live(w, &mut rc, &rm, &req, false, &mut res);
                viol = res.viol.clone();
                rm = res.model_after.clone();
            }
            RAct::Clear(s, e) => {
                if *s < rm.len {
                    // On a sparse replica clear() may return Err after it has logged and applied
                    // the clear: widening the hole in the data store needs byte offsets of
                    // neighbouring blocks whose tree nodes the replica never received. C08 is
                    // about has()/contiguous_length, which must be exact either way; only a panic
                    // is reported here.
                    match guard(rc.c().clear(*s, *e)) {
                        Out::Panic(p) => viol = Some(("clear-panics".into(), format!("replica clear({s},{e}) panicked: {p}"))),
                        _ => {
                            for i in *s..(*e).min(rm.len) {
                                rm.held.remove(&i);
                            }
                        }
                    }
                }
            }
        }
        if viol.is_none() {
            viol = big_replica_diff(&mut rc, &w.model, &rm);
        }
        let img = rc.image();
        if viol.is_none() {
            let (mut rc2, out) = Core::from_image(img, CacheCfg::Off);
            if out.is_ok() {
                viol = big_replica_diff(&mut rc2, &w.model, &rm).map(|(c, d)| (format!("after-reopen:{c}"), d));
            } else {
                viol = Some(("open-fails".into(), out.brief()));
            }
        }
        if let Some((clause, detail)) = viol {
            let kinds: Vec<&str> = seq[..=k].iter().map(|a| if matches!(a, RAct::Fetch(_)) { "fetch" } else { "clear" }).collect();
            rep.violate(
                &clause,
                format!("sparse-replica acts={}", kinds.join(">")),
                format!("70000-block writer, replica actions {:?}: {}", &seq[..=k], detail),
                json!({"prop":"C08","what":"sparse","seq":seq[..=k].to_vec()}),
                k,
            );
            break;
        }
    }
    steps
}

/// a replica that fills a log of exactly one bitfield page completely, the last fetches closing
/// holes out of order: the contiguous length must jump to the full length
fn dense_replica(rep: &Report, stats: &Stats) {
    let n: u32 = 32768;
    let whist = vec![Op::BatchN(n)];
    let mut w = super::c03::build_writer(&whist);
    let (img0, mut rm) = super::c03::empty_replica();
    let (mut rc, out) = Core::from_image(img0, CacheCfg::Off);
    if !out.is_ok() {
        return;
    }
    let late = [5u64, 32767, 0, 16384];
    let mut order: Vec<u64> = (0..n as u64).filter(|i| !late.contains(i)).collect();
    order.extend_from_slice(&late);
    let total = order.len();
    for (k, bi) in order.into_iter().enumerate() {
        if k % 256 == 0 {
            crate::sup::tick();
        }
        let req = Req { block: Some(bi), up: if rm.len < n as u64 { Some(n as u64) } else { None }, ..Default::default() };
        let creq = match concretize(rc.c(), &req) {
            Out::Ok(c) => c,
            _ => return,
        };
        let proof = match create_proof(w.core.c(), &creq) {
            Out::Ok(Some(p)) => p,
            _ => return,
        };
        if !matches!(apply_proof(rc.c(), &proof), Out::Ok(true)) {
            return; // honest-proof failures are C03's to report
        }
        rm.len = n as u64;
        rm.byte_len = w.model.byte_len();
        rm.held.insert(bi);
        stats.add("dense_replica_steps", 1);
        if k + 6 >= total || k % 4096 == 0 {
            let info = rc.c().info();
            if info.contiguous_length != rm.contig() {
                rep.violate(
                    "contiguous_length",
                    "dense-replica-one-full-page".into(),
                    format!("replica of a 32768-block writer after fetching all blocks but {late:?} in order and then block {bi}: contiguous_length {} expected {}", info.contiguous_length, rm.contig()),
                    json!({"prop":"C08","what":"dense"}),
                    1,
                );
                return;
            }
        }
    }
    if let Out::Ok(()) = rc.reopen() {
        if let Some((c, d)) = big_replica_diff(&mut rc, &w.model, &rm) {
            rep.violate(&format!("after-reopen:{c}"), "dense-replica-one-full-page".into(), d, json!({"prop":"C08","what":"dense"}), 2);
        }
    }
}

fn sparse_replicas(tier: &str, rep: &Report, stats: &Stats) -> Value {
    let quick = tier == "quick";
    let n: u32 = 70000;
    let whist = vec![Op::BatchN(n)];
    let maxk = if quick { 2 } else { 3 };
    let mut menu: Vec<RAct> = FAR_IDX.iter().map(|i| RAct::Fetch(*i)).collect();
    menu.extend(R_CLEARS.iter().map(|(s, e)| RAct::Clear(*s, *e)));
    let mut seqs: Vec<Vec<RAct>> = vec![];
    fn rec(cur: &mut Vec<RAct>, menu: &[RAct], maxk: usize, out: &mut Vec<Vec<RAct>>) {
        if cur.len() == maxk {
            out.push(cur.clone());
            return;
        }
        for a in menu {
            if cur.contains(a) || (cur.is_empty() && matches!(a, RAct::Clear(..))) {
                continue;
            }
            cur.push(*a);
            rec(cur, menu, maxk, out);
            cur.pop();
        }
    }
    rec(&mut vec![], &menu, maxk, &mut seqs);
    // every fetch sequence is followed by each clear (so that clears hit replicas whose low pages are unallocated)
    let mut extra = vec![];
    for s in &seqs {
        if s.iter().all(|a| matches!(a, RAct::Fetch(_))) {
            for (cs, ce) in R_CLEARS {
                let mut t = s.clone();
                t.push(RAct::Clear(cs, ce));
                extra.push(t);
            }
        }
    }
    if !quick {
        seqs.extend(extra);
    } else {
        seqs.extend(extra.into_iter().step_by(3));
    }
    let idx = AtomicUsize::new(0);
    let seqs = &seqs;
    std::thread::scope(|s| {
        s.spawn(|| dense_replica(rep, stats));
        for _ in 0..nthreads().min(seqs.len()) {
            s.spawn(|| {
                let mut w = super::c03::build_writer(&whist);
                let (img0, _) = super::c03::empty_replica();
                let mut steps = 0u64;
                loop {
                    let i = idx.fetch_add(1, Ordering::Relaxed);
                    if i >= seqs.len() {
                        break;
                    }
                    crate::sup::set_case(&json!({"prop": "C08", "what": "sparse", "seq": seqs[i]}).to_string());
                    steps += run_sparse_seq(&mut w, &img0, &seqs[i], rep);
                }
                stats.add("sparse_steps", steps);
                crate::sup::clear_case();
            });
        }
    });
    json!({"writer_blocks": n, "fetch_indices": FAR_IDX, "replica_clears": R_CLEARS, "ordered_action_sequences_of_length": maxk, "sequences": seqs.len(),
           "dense_replica": "32768-block writer, replica fetches every block (4 of them last, out of order)", "dense_replica_steps": stats.get("dense_replica_steps")})
}

fn big_replica_diff(rc: &mut Core, wm: &ListModel, rm: &ReplicaModel) -> Option<(String, String)> {
    let (hp, mut gp) = probes_for(wm.len(), true);
    gp.extend(rm.held.iter().cloned());
    gp.extend(FAR_IDX.iter().cloned());
    gp.sort();
    gp.dedup();
    let obs = observe(rc.c(), &hp, &gp);
    let exp = expect_replica(wm, rm, &hp, &gp);
    diff_obs(&obs, &exp, &hp, &gp, true)
}

pub fn run(tier: &str) -> i32 {
    let quick = tier == "quick";
    let rep = Report::new("C08", tier, "exploration");
    let stats = Stats::default();
    let states = FpSet::default();
    let outcomes = FpSet::default();
    let images = FpSet::default();
    let mut parts = vec![];
    // (1) small histories with contiguous length, plus crash points
    let fams: Vec<(&str, usize, Alpha)> = vec![
        ("full-alphabet", if quick { 3 } else { 4 }, Alpha::full()),
        ("medium-alphabet", if quick { 4 } else { 5 }, Alpha::medium()),
        ("small-alphabet", if quick { 6 } else { 8 }, Alpha::small()),
    ];
    for (name, depth, alpha) in fams {
        let a2 = alpha.clone();
        let af = move |m: &SysModel, _d: usize| a2.ops(m);
        let e = E1 { prop: "C08", depth, with_replica: false, prefix: vec![], alphabet: &af, threads: nthreads(), cache: CacheCfg::Off, altered: None };
        let mk = || Both(ObsVisitor::new("C08", &rep, &stats, &states, &outcomes, true), FaultVisitor::new(fcfg(), &rep, &stats, &images));
        let t = std::time::Instant::now();
        let (vs, leaves) = e.run(&mk);
        drop(vs);
        parts.push(json!({"part": "small-histories", "family": name, "depth": depth, "complete_histories": leaves, "secs": t.elapsed().as_secs_f64()}));
    }
    // (1c) range matrix (shared with C01): every batch shape (a present, n appended) and every
    // clear(s, e) over the first bitfield words, then reopen; has() on all indices and the
    // contiguous length after every step
    {
        let mats = super::c01::range_matrix(tier);
        let next = std::sync::atomic::AtomicUsize::new(0);
        let t = std::time::Instant::now();
        std::thread::scope(|s| {
            for _ in 0..nthreads().min(mats.len().max(1)) {
                s.spawn(|| {
                    let mut v = ObsVisitor::new("C08", &rep, &stats, &states, &outcomes, true);
                    loop {
                        let i = next.fetch_add(1, std::sync::atomic::Ordering::Relaxed);
                        if i >= mats.len() {
                            break;
                        }
                        super::c01::run_all_prefixes(&mats[i], &mut v);
                    }
                });
            }
        });
        parts.push(json!({"part": "range-matrix", "histories": mats.len(), "secs": t.elapsed().as_secs_f64()}));
    }
    // replica saturations with contiguous length compared
    let gs = FpSet::default();
    for n in if quick { vec![3u64, 5] } else { vec![3, 5, 6, 7] } {
        for cleared in [None, Some(1u64)] {
            let wh = super::c03::shape(n, 0, cleared);
            let r = super::c03::saturate("C08", &wh, vec![super::c03::empty_replica()], super::c03::Seeks::None, false, true, &rep, &stats, &gs);
            parts.push(json!({"part": "replica-saturation", "writer": hist_brief(&wh), "states": r.states, "transitions": r.transitions}));
        }
    }
    // (2) page scale
    let cap = 70000u64;
    let depth = if quick { 2 } else { 3 };
    let af = move |m: &SysModel, _d: usize| macro_alpha(m, cap, quick);
    let e = E1 { prop: "C08", depth, with_replica: false, prefix: vec![], alphabet: &af, threads: nthreads(), cache: CacheCfg::Off, altered: None };
    let mk = || {
        let mut o = ObsVisitor::new("C08", &rep, &stats, &states, &outcomes, true);
        o.big = true;
        let mut c = fcfg();
        c.cont_depth = if quick { 0 } else { 1 };
        c.thin_over = 200;
        Both(o, FaultVisitor::new(c, &rep, &stats, &images))
    };
    let t = std::time::Instant::now();
    let (vs, leaves) = e.run(&mk);
    drop(vs);
    parts.push(json!({"part": "page-scale", "depth": depth, "cap_blocks": cap, "complete_histories": leaves, "secs": t.elapsed().as_secs_f64()}));
    // (3) sparse replicas
    let t = std::time::Instant::now();
    let mut sp = sparse_replicas(tier, &rep, &stats);
    sp["secs"] = json!(t.elapsed().as_secs_f64());
    parts.push(json!({"part": "sparse-replicas", "detail": sp}));
    let evals = stats.get("visited_prefixes") + stats.get("recoveries") + stats.get("transitions") + stats.get("sparse_steps");
    let coverage = json!({
        "evaluations": evals,
        "distinct_nontrivial": states.len() + images.len() + gs.len(),
        "rule": "every visited state of (1) small E1 histories + their crash images, (1b) replica saturations, (2) page-scale macro histories + their crash images, (3) sparse-replica fetch orders is observed: has(i) for every i below length plus boundary indices in the following pages, info().contiguous_length, against has(i) <=> i in model set and contiguous = min missing; distinct_nontrivial = distinct exact states + distinct crash images + distinct replica images",
        "parts": parts,
        "crash_points": stats.get("crash_points"),
        "thinned_long_journal_segments": stats.get("thinned_long_journal_segments"),
        "thinning_note": "page-scale calls whose flush issues more than 200 storage operations (thousands of 40-byte tree-node writes) are crash-tested at all points among the first and last 24 operations and at ~48 evenly spaced points in between, not at every point",
        "distinct_observation_outcomes": outcomes.len(),
        "samples": [
            "batch 32769x1; clear(32766,32770); reopen  -> has on 0..32769 and page-boundary offsets, contiguous 32766",
            "70000-block writer; replica fetches 65536, 40960, then clears (100, 40961) (reopen after each)",
            "append[1]; append[0]; clear(0,1); reopen -> contiguous 0"
        ],
        "exhaustive": true,
    });
    rep.finish(coverage, vec!["page-scale blocks are 1 byte".into()])
}

pub fn replay(case: &Value, rep: &Report) {
    let what = case["what"].as_str().unwrap_or("");
    let stats = Stats::default();
    if what == "sparse" {
        let seq: Vec<RAct> = serde_json::from_value(case["seq"].clone()).unwrap_or_default();
        let whist = vec![Op::BatchN(70000)];
        let mut w = super::c03::build_writer(&whist);
        let (img0, _) = super::c03::empty_replica();
        run_sparse_seq(&mut w, &img0, &seq, rep);
        return;
    }
    if what == "dense" {
        dense_replica(rep, &stats);
        return;
    }
    if what == "E2" || what == "E2-live" {
        super::c03::replay_with(case, rep, true);
        return;
    }
    let hist = parse_hist(case);
    let states = FpSet::default();
    let outcomes = FpSet::default();
    let images = FpSet::default();
    let mut o = ObsVisitor::new("C08", rep, &stats, &states, &outcomes, true);
    o.big = hist.iter().any(|x| matches!(x, Op::BatchN(_)));
    let mut v = Both(o, FaultVisitor::new(fcfg(), rep, &stats, &images));
    let with_replica = hist.iter().any(|o| o.is_replica_op());
    replay_history(&hist, with_replica, CacheCfg::Off, None, &mut v);
}
