//! C08 — has() and contiguous_length are exact for large, sparse and reopened cores.
//! (1) all small writer histories and replica saturations with the contiguous length compared,
//!     including after every crash point of the last call;
//! (2) page-scale macro histories (tens of thousands of blocks, clears straddling 8192 / 32768 /
//!     65536) with crash recovery at every journal prefix, has() probed on all indices;
//! (3) sparse replicas of a 70 000-block writer fetching far-apart indices in every order.

use super::common::*;
use super::faults::*;
use crate::drv::*;
use crate::explore::*;
use crate::report::{FpSet, Report, Stats};
use serde_json::{json, Value};
use std::sync::atomic::{AtomicUsize, Ordering};

pub struct Both<A: Visitor, B: Visitor>(pub A, pub B);
impl<A: Visitor, B: Visitor> Visitor for Both<A, B> {
    fn visit(&mut self, cx: &mut Cx<'_>) {
        self.0.visit(cx);
        self.1.visit(cx);
    }
}

fn fcfg() -> FaultCfg {
    FaultCfg {
        prop: "C08",
        crash: true,
        torn: TornMode::Off,
        io_faults: false,
        with_contig: true,
        cont_depth: 1,
        double_fault: false,
        check_secret: false,
        thin_over: 0,
    }
}

fn macro_alpha(m: &SysModel, cap: u64, quick: bool) -> Vec<Op> {
    let len = m.w.len();
    let mut v = vec![];
    let sizes: &[u32] = if quick { &[8193, 32769] } else { &[8191, 8193, 24576, 32767, 32769] };
    for &n in sizes {
        if len + n as u64 <= cap {
            v.push(Op::BatchN(n));
        }
    }
    if len > 0 {
        let mut cl: Vec<(u64, u64)> = vec![(len - 1, len + 1)];
        for b in [8192u64, 32768, 65536] {
            if len > b - 2 {
                cl.push((b - 2, b + 2));
            }
        }
        if len > 3 {
            cl.push((0, 2));
        }
        if !quick && len > 40000 {
            cl.push((8000, 40000)); // spans a whole page boundary region
        }
        for (s, e) in cl {
            if s < len {
                v.push(Op::Clear(s, e));
            }
        }
    }
    v.push(Op::Reopen);
    v
}

const FAR_IDX: [u64; 9] = [0, 8191, 8192, 32767, 32768, 40960, 65535, 65536, 69999];

fn sparse_replicas(tier: &str, rep: &Report, stats: &Stats) -> Value {
    let quick = tier == "quick";
    let n: u32 = 70000;
    let whist = vec![Op::BatchN(n)];
    let maxk = if quick { 2 } else { 3 };
    // ordered subsets of FAR_IDX of size 1..=maxk (quick: first index restricted to 3 choices)
    let mut seqs: Vec<Vec<u64>> = vec![];
    fn rec(cur: &mut Vec<u64>, maxk: usize, out: &mut Vec<Vec<u64>>) {
        if !cur.is_empty() {
            out.push(cur.clone());
        }
        if cur.len() == maxk {
            return;
        }
        for &i in FAR_IDX.iter() {
            if !cur.contains(&i) {
                cur.push(i);
                rec(cur, maxk, out);
                cur.pop();
            }
        }
    }
    rec(&mut vec![], maxk, &mut seqs);
    // only maximal sequences need executing (prefixes are checked on the way)
    let seqs: Vec<Vec<u64>> = seqs.into_iter().filter(|s| s.len() == maxk).collect();
    let idx = AtomicUsize::new(0);
    let seqs = &seqs;
    std::thread::scope(|s| {
        for _ in 0..nthreads().min(seqs.len()) {
            s.spawn(|| {
                let mut w = super::c03::build_writer(&whist);
                let (img0, rm0) = super::c03::empty_replica();
                let mut steps = 0u64;
                loop {
                    let i = idx.fetch_add(1, Ordering::Relaxed);
                    if i >= seqs.len() {
                        break;
                    }
                    let seq = &seqs[i];
                    crate::sup::set_case(&json!({"prop": "C08", "what": "sparse", "seq": seq}).to_string());
                    let mut img = img0.clone();
                    let mut rm = rm0.clone();
                    for (k, &bi) in seq.iter().enumerate() {
                        steps += 1;
                        let req = Req {
                            block: Some(bi),
                            up: if rm.len < n as u64 { Some(n as u64) } else { None },
                            ..Default::default()
                        };
                        // open(image) -> request -> apply -> observe live -> drop; then reopen and observe again
                        let (mut rc, out) = Core::from_image(img.clone(), CacheCfg::Off);
                        if !out.is_ok() {
                            rep.violate("open-fails", format!("sparse step={k}"), format!("sparse replica {:?}: reopen {}", &seq[..k], out.brief()),
                                json!({"prop":"C08","what":"sparse","seq":seq}), k);
                            break;
                        }
                        let mut res = super::c03::StepResult { image_after: None, model_after: rm.clone(), viol: None, proof: None, accepted: false };
                        super::c03::step_live(&mut w, &mut rc, &rm, &req, false, &mut res);
                        let mut viol = res.viol.clone();
                        rm = res.model_after.clone();
                        if viol.is_none() {
                            viol = big_replica_diff(&mut rc, &w.model, &rm);
                        }
                        drop(rc.core.take());
                        img = rc.image();
                        if viol.is_none() {
                            let (mut rc2, out) = Core::from_image(img.clone(), CacheCfg::Off);
                            if out.is_ok() {
                                viol = big_replica_diff(&mut rc2, &w.model, &rm).map(|(c, d)| (format!("after-reopen:{c}"), d));
                            } else {
                                viol = Some(("open-fails".into(), out.brief()));
                            }
                        }
                        if let Some((clause, detail)) = viol {
                            rep.violate(
                                &clause,
                                format!("sparse-replica pages-apart={}", seq[..=k].iter().map(|i| i / 32768).collect::<std::collections::BTreeSet<_>>().len()),
                                format!("70000-block writer, replica fetched {:?} in this order: {}", &seq[..=k], detail),
                                json!({"prop":"C08","what":"sparse","seq":seq[..=k].to_vec()}),
                                k,
                            );
                            break;
                        }
                    }
                }
                stats.add("sparse_steps", steps);
                crate::sup::clear_case();
            });
        }
    });
    json!({"writer_blocks": n, "indices": FAR_IDX, "ordered_subsets_of_size": maxk, "sequences": seqs.len()})
}

fn big_replica_diff(rc: &mut Core, wm: &ListModel, rm: &ReplicaModel) -> Option<(String, String)> {
    let (hp, mut gp) = probes_for(wm.len(), true);
    gp.extend(rm.held.iter().cloned());
    gp.extend(FAR_IDX.iter().cloned());
    gp.sort();
    gp.dedup();
    let obs = observe(rc.c(), &hp, &gp);
    let exp = expect_replica(wm, rm, &hp, &gp);
    diff_obs(&obs, &exp, &hp, &gp, true)
}

pub fn run(tier: &str) -> i32 {
    let quick = tier == "quick";
    let rep = Report::new("C08", tier, "exploration");
    let stats = Stats::default();
    let states = FpSet::default();
    let outcomes = FpSet::default();
    let images = FpSet::default();
    let mut parts = vec![];
    // (1) small histories with contiguous length, plus crash points
    let fams: Vec<(&str, usize, Alpha)> = vec![
        ("full-alphabet", if quick { 3 } else { 4 }, Alpha::full()),
        ("medium-alphabet", if quick { 4 } else { 5 }, Alpha::medium()),
        ("small-alphabet", if quick { 6 } else { 8 }, Alpha::small()),
    ];
    for (name, depth, alpha) in fams {
        let a2 = alpha.clone();
        let af = move |m: &SysModel, _d: usize| a2.ops(m);
        let e = E1 { prop: "C08", depth, with_replica: false, prefix: vec![], alphabet: &af, threads: nthreads(), cache: CacheCfg::Off, altered: None };
        let mk = || Both(ObsVisitor::new("C08", &rep, &stats, &states, &outcomes, true), FaultVisitor::new(fcfg(), &rep, &stats, &images));
        let t = std::time::Instant::now();
        let (vs, leaves) = e.run(&mk);
        drop(vs);
        parts.push(json!({"part": "small-histories", "family": name, "depth": depth, "complete_histories": leaves, "secs": t.elapsed().as_secs_f64()}));
    }
    // replica saturations with contiguous length compared
    let gs = FpSet::default();
    for n in if quick { vec![3u64, 5] } else { vec![3, 5, 6, 7] } {
        for cleared in [None, Some(1u64)] {
            let wh = super::c03::shape(n, 0, cleared);
            let r = super::c03::saturate("C08", &wh, vec![super::c03::empty_replica()], super::c03::Seeks::None, false, true, &rep, &stats, &gs);
            parts.push(json!({"part": "replica-saturation", "writer": hist_brief(&wh), "states": r.states, "transitions": r.transitions}));
        }
    }
    // (2) page scale
    let cap = 70000u64;
    let depth = if quick { 2 } else { 3 };
    let af = move |m: &SysModel, _d: usize| macro_alpha(m, cap, quick);
    let e = E1 { prop: "C08", depth, with_replica: false, prefix: vec![], alphabet: &af, threads: nthreads(), cache: CacheCfg::Off, altered: None };
    let mk = || {
        let mut o = ObsVisitor::new("C08", &rep, &stats, &states, &outcomes, true);
        o.big = true;
        let mut c = fcfg();
        c.cont_depth = if quick { 0 } else { 1 };
        c.thin_over = 200;
        Both(o, FaultVisitor::new(c, &rep, &stats, &images))
    };
    let t = std::time::Instant::now();
    let (vs, leaves) = e.run(&mk);
    drop(vs);
    parts.push(json!({"part": "page-scale", "depth": depth, "cap_blocks": cap, "complete_histories": leaves, "secs": t.elapsed().as_secs_f64()}));
    // (3) sparse replicas
    let t = std::time::Instant::now();
    let mut sp = sparse_replicas(tier, &rep, &stats);
    sp["secs"] = json!(t.elapsed().as_secs_f64());
    parts.push(json!({"part": "sparse-replicas", "detail": sp}));
    let evals = stats.get("visited_prefixes") + stats.get("recoveries") + stats.get("transitions") + stats.get("sparse_steps");
    let coverage = json!({
        "evaluations": evals,
        "distinct_nontrivial": states.len() + images.len() + gs.len(),
        "rule": "every visited state of (1) small E1 histories + their crash images, (1b) replica saturations, (2) page-scale macro histories + their crash images, (3) sparse-replica fetch orders is observed: has(i) for every i below length plus boundary indices in the following pages, info().contiguous_length, against has(i) <=> i in model set and contiguous = min missing; distinct_nontrivial = distinct exact states + distinct crash images + distinct replica images",
        "parts": parts,
        "crash_points": stats.get("crash_points"),
        "thinned_long_journal_segments": stats.get("thinned_long_journal_segments"),
        "thinning_note": "page-scale calls whose flush issues more than 200 storage operations (thousands of 40-byte tree-node writes) are crash-tested at all points among the first and last 24 operations and at ~48 evenly spaced points in between, not at every point",
        "distinct_observation_outcomes": outcomes.len(),
        "samples": [
            "batch 32769x1; clear(32766,32770); reopen  -> has on 0..32769 and page-boundary offsets, contiguous 32766",
            "70000-block writer; replica fetches 65536, 0, 8192 (reopen after each)",
            "append[1]; append[0]; clear(0,1); reopen -> contiguous 0"
        ],
        "exhaustive": true,
    });
    rep.finish(coverage, vec!["page-scale blocks are 1 byte".into()])
}

pub fn replay(case: &Value, rep: &Report) {
    let what = case["what"].as_str().unwrap_or("");
    let stats = Stats::default();
    if what == "sparse" {
        // re-run the one sequence
        let seq: Vec<u64> = serde_json::from_value(case["seq"].clone()).unwrap_or_default();
        let whist = vec![Op::BatchN(70000)];
        let mut w = super::c03::build_writer(&whist);
        let (mut img, mut rm) = super::c03::empty_replica();
        for (k, &bi) in seq.iter().enumerate() {
            let req = Req { block: Some(bi), up: if rm.len < 70000 { Some(70000) } else { None }, ..Default::default() };
            let (mut rc, out) = Core::from_image(img.clone(), CacheCfg::Off);
            if !out.is_ok() {
                rep.violate("open-fails", "replay".into(), out.brief(), case.clone(), k);
                return;
            }
            let mut res = super::c03::StepResult { image_after: None, model_after: rm.clone(), viol: None, proof: None, accepted: false };
            super::c03::step_live(&mut w, &mut rc, &rm, &req, false, &mut res);
            rm = res.model_after.clone();
            let mut viol = res.viol.clone();
            if viol.is_none() {
                viol = big_replica_diff(&mut rc, &w.model, &rm);
            }
            drop(rc.core.take());
            img = rc.image();
            if viol.is_none() {
                let (mut rc2, out) = Core::from_image(img.clone(), CacheCfg::Off);
                if out.is_ok() {
                    viol = big_replica_diff(&mut rc2, &w.model, &rm).map(|(c, d)| (format!("after-reopen:{c}"), d));
                }
            }
            if let Some((c, d)) = viol {
                rep.violate(&c, "replay".into(), d, case.clone(), k);
                return;
            }
        }
        return;
    }
    if what == "E2" || what == "E2-live" {
        super::c03::replay_with(case, rep, true);
        return;
    }
    let hist = parse_hist(case);
    let states = FpSet::default();
    let outcomes = FpSet::default();
    let images = FpSet::default();
    let mut o = ObsVisitor::new("C08", rep, &stats, &states, &outcomes, true);
    o.big = hist.iter().any(|x| matches!(x, Op::BatchN(_)));
    let mut v = Both(o, FaultVisitor::new(fcfg(), rep, &stats, &images));
    let with_replica = hist.iter().any(|o| o.is_replica_op());
    replay_history(&hist, with_replica, CacheCfg::Off, None, &mut v);
}
