//! C09 — no request or proof from a peer can panic the node.
//! E4 under the supervisor watchdog: the full product of boundary values for the four request
//! sections against many cores, and structurally arbitrary proofs (each section exhaustively
//! varied while the others are absent or honest) applied to writers and replicas.

use super::c03;
use super::common::*;
use crate::alter::{mk_node, node_parts};
use crate::drv::*;
use crate::env::Image;
use crate::report::{FpSet, Report, Stats};
use hypercore::{DataBlock, DataHash, DataSeek, DataUpgrade, Node, Proof, RequestBlock, RequestSeek, RequestUpgrade};
use serde_json::{json, Value};
use std::sync::atomic::{AtomicUsize, Ordering};

const BIG: u64 = 1 << 39;

#[derive(Clone, Debug, serde::Serialize, serde::Deserialize)]
pub struct CoreSpec {
    pub name: String,
    pub whist: Vec<Op>,
    /// None: the writer itself; Some(k): the k-th saturated replica state of that writer
    pub replica_state: Option<usize>,
    pub reopened: bool,
}

fn core_specs(quick: bool) -> Vec<CoreSpec> {
    let mut v = vec![];
    let ns: Vec<u64> = if quick { vec![0, 1, 2, 3, 5, 8] } else { vec![0, 1, 2, 3, 4, 5, 6, 7, 8, 9, 10] };
    for n in ns {
        for reopened in [false, true] {
            v.push(CoreSpec { name: format!("writer n={n}{}", if reopened { " reopened" } else { "" }), whist: c03::shape(n, 0, None), replica_state: None, reopened });
        }
    }
    v.push(CoreSpec { name: "writer n=5 cleared 2".into(), whist: c03::shape(5, 0, Some(2)), replica_state: None, reopened: false });
    v.push(CoreSpec { name: "writer n=6 batch cleared 0 reopened".into(), whist: c03::shape(6, 1, Some(0)), replica_state: None, reopened: true });
    // sparse replicas: every saturated state of a 3-block writer, and every k-th of a 5-block one
    for k in 0..74 {
        v.push(CoreSpec { name: format!("replica state #{k} of writer n=3"), whist: c03::shape(3, 0, None), replica_state: Some(k), reopened: true });
    }
    let step = if quick { 30 } else { 6 };
    for k in (0..369).step_by(step) {
        v.push(CoreSpec { name: format!("replica state #{k} of writer n=5"), whist: c03::shape(5, 0, None), replica_state: Some(k), reopened: true });
    }
    if !quick {
        for k in (0..4696).step_by(150) {
            v.push(CoreSpec { name: format!("replica state #{k} of writer n=8"), whist: c03::shape(8, 0, None), replica_state: Some(k), reopened: true });
        }
    }
    v
}

pub struct Subject {
    pub core: Core,
    pub n: u64,
    pub m: u64,
    pub is_replica: bool,
    pub image: Image,
}

fn build_subject(spec: &CoreSpec, sat_cache: &std::sync::Mutex<std::collections::BTreeMap<String, Vec<(Image, ReplicaModel)>>>) -> Option<Subject> {
    match spec.replica_state {
        None => {
            let w = c03::build_writer(&spec.whist);
            let mut core = w.core;
            if spec.reopened {
                if !core.reopen().is_ok() {
                    return None;
                }
            }
            let info = core.c().info();
            let image = core.image();
            Some(Subject { core, n: info.length, m: info.byte_length, is_replica: false, image })
        }
        Some(k) => {
            let key = format!("{:?}", spec.whist);
            let mut g = sat_cache.lock().unwrap_or_else(|e| e.into_inner());
            if !g.contains_key(&key) {
                let tmp = Report::new("C09", "quick", "exploration");
                let st = Stats::default();
                let gs = FpSet::default();
                let r = c03::saturate("C09", &spec.whist, vec![c03::empty_replica()], c03::Seeks::None, true, false, &tmp, &st, &gs);
                g.insert(key.clone(), r.kept);
            }
            let states = g.get(&key).unwrap();
            let (img, _) = states.get(k % states.len().max(1))?.clone();
            drop(g);
            let (mut core, out) = Core::from_image(img.clone(), CacheCfg::Off);
            if !out.is_ok() {
                return None;
            }
            let info = core.c().info();
            Some(Subject { core, n: info.length, m: info.byte_length, is_replica: true, image: img })
        }
    }
}

fn health(core: &mut Core, n: u64) -> Out<String> {
    let probes: Vec<u64> = (0..n.min(12)).chain([n, n + 1]).collect();
    guard_sync(|| {
        let o = observe(core.c(), &probes, &probes);
        format!("{o:?}")
    })
}

fn dedup(mut v: Vec<u64>) -> Vec<u64> {
    v.sort();
    v.dedup();
    v
}

fn request_sweep(spec: &CoreSpec, s: &mut Subject, rep: &Report, stats: &Stats, quick: bool) {
    let n = s.n;
    let m = s.m;
    let lg = 64 - n.max(1).leading_zeros() as u64 + 1;
    let idx = dedup(vec![0, 1, n.saturating_sub(1), n, n + 1, 2 * n, 2 * n + 1, BIG]);
    let nodes = dedup(vec![0, 1, 2, lg, 64, BIG]);
    let tidx = dedup(vec![0, 1, 2, (2 * n).saturating_sub(2), (2 * n).saturating_sub(1), 2 * n, 4 * n, (1u64 << 40) - 1]);
    let seeks = dedup(vec![0, 1, m.saturating_sub(1), m, m + 1, BIG]);
    let ul = dedup(vec![0, 1, n.saturating_sub(1), n, n + 1, 2 * n, BIG]);
    let mut blocks: Vec<Option<RequestBlock>> = vec![None];
    for &i in &idx {
        for &k in &nodes {
            blocks.push(Some(RequestBlock { index: i, nodes: k }));
        }
    }
    let mut hashes: Vec<Option<RequestBlock>> = vec![None];
    for &i in &tidx {
        for &k in &nodes {
            hashes.push(Some(RequestBlock { index: i, nodes: k }));
        }
    }
    let mut sk: Vec<Option<RequestSeek>> = vec![None];
    sk.extend(seeks.iter().map(|&b| Some(RequestSeek { bytes: b })));
    let mut ups: Vec<Option<RequestUpgrade>> = vec![None];
    for &a in &ul {
        for &b in &ul {
            ups.push(Some(RequestUpgrade { start: a, length: b }));
        }
    }
    // quick: block and hash requests are mutually exclusive in the API use (block wins), so the
    // block x hash product is thinned to (block, None) and (None, hash) plus a diagonal
    let h0 = health(&mut s.core, n);
    let mut count = 0u64;
    let mut oks = 0u64;
    let mut errs = 0u64;
    for (bi, b) in blocks.iter().enumerate() {
        for (hi, h) in hashes.iter().enumerate() {
            if quick && b.is_some() && h.is_some() && (bi + hi) % 7 != 0 {
                continue;
            }
            for sr in &sk {
                for u in &ups {
                    count += 1;
                    if count % 512 == 0 {
                        crate::sup::tick();
                    }
                    let out = guard(s.core.c().create_proof(b.clone(), h.clone(), sr.clone(), u.clone()));
                    match &out {
                        Out::Ok(_) => oks += 1,
                        Out::Err(_) => errs += 1,
                        Out::Panic(p) => {
                            let loc = p.split(':').take(2).collect::<Vec<_>>().join(":");
                            rep.violate(
                                "create-proof-panics",
                                format!("panic at {loc}"),
                                format!("core [{}]: create_proof(block {:?}, hash {:?}, seek {:?}, upgrade {:?}) panicked: {p}", spec.name, b, h, sr, u),
                                json!({"prop": "C09", "what": "request", "core": spec, "block": b.as_ref().map(|x| (x.index, x.nodes)),
                                    "hash": h.as_ref().map(|x| (x.index, x.nodes)), "seek": sr.as_ref().map(|x| x.bytes), "upgrade": u.as_ref().map(|x| (x.start, x.length))}),
                                (b.is_some() as usize + h.is_some() as usize + sr.is_some() as usize + u.is_some() as usize) * 100 + spec.whist.len(),
                            );
                        }
                    }
                }
            }
        }
    }
    let h1 = health(&mut s.core, n);
    if h0 != h1 {
        rep.violate(
            "unusable-after-requests",
            "health-probe".into(),
            format!("core [{}]: info/has/get answers changed after serving {count} requests: before {} after {}", spec.name, h0.brief(), h1.brief()),
            json!({"prop": "C09", "what": "request-health", "core": spec}),
            spec.whist.len(),
        );
    }
    stats.add("requests", count);
    stats.add("requests_ok", oks);
    stats.add("requests_err", errs);
}

// ---- structurally arbitrary proofs ---------------------------------------------------------

fn node_variants(real: &Node) -> Vec<Node> {
    let (i, l, h) = node_parts(real);
    vec![
        real.clone(),
        mk_node(i + 1, l, &h),
        mk_node(i.saturating_sub(1), l, &h),
        mk_node(0, l, &h),
        mk_node((1 << 40) - 1, l, &h),
        mk_node(i, l, &[0u8; 32]),
        mk_node(i, (1 << 40) - 1, &h),
    ]
}

fn node_lists(real: &[Node]) -> Vec<Vec<Node>> {
    let a = real.first().cloned().unwrap_or_else(|| mk_node(0, 1, &[7u8; 32]));
    let b = real.get(1).cloned().unwrap_or_else(|| mk_node(2, 1, &[9u8; 32]));
    let va = node_variants(&a);
    let vb = node_variants(&b);
    let mut out = vec![vec![]];
    for x in &va {
        out.push(vec![x.clone()]);
    }
    for x in &va {
        for y in &vb {
            out.push(vec![x.clone(), y.clone()]);
        }
    }
    if real.len() > 2 {
        out.push(real.to_vec());
    }
    out
}

struct Honest {
    block: Option<DataBlock>,
    hash: Option<DataHash>,
    seek: Option<DataSeek>,
    upgrade: Option<DataUpgrade>,
}

fn honest_sections(whist: &[Op]) -> Honest {
    let mut w = c03::build_writer(whist);
    let n = w.model.len();
    let mut h = Honest { block: None, hash: None, seek: None, upgrade: None };
    if n == 0 {
        return h;
    }
    let up = Some(RequestUpgrade { start: 0, length: n });
    if let Out::Ok(Some(p)) = guard(w.core.c().create_proof(Some(RequestBlock { index: n - 1, nodes: 0 }), None, None, up.clone())) {
        h.block = p.block;
        h.upgrade = p.upgrade;
    }
    if let Out::Ok(Some(p)) = guard(w.core.c().create_proof(None, Some(RequestBlock { index: 0, nodes: 0 }), None, up.clone())) {
        h.hash = p.hash;
    }
    if let Out::Ok(Some(p)) = guard(w.core.c().create_proof(None, None, Some(RequestSeek { bytes: w.model.byte_len().saturating_sub(1) }), up)) {
        h.seek = p.seek;
    }
    h
}

fn proof_sweep(spec: &CoreSpec, s: &mut Subject, rep: &Report, stats: &Stats, quick: bool) {
    let n = s.n;
    let hon = honest_sections(&spec.whist);
    let real_nodes: Vec<Node> = hon.upgrade.as_ref().map(|u| u.nodes.clone()).unwrap_or_default();
    let lists = node_lists(&real_nodes);
    let lists_small: Vec<Vec<Node>> = lists.iter().filter(|l| l.len() <= 1).cloned().collect();
    let idx = dedup(vec![0, 1, n.saturating_sub(1), n, BIG]);
    let ul = dedup(vec![0, 1, n.saturating_sub(1), n, n + 1, 2 * n, BIG]);
    let values: Vec<Vec<u8>> = vec![vec![], vec![1], hon.block.as_ref().map(|b| b.value.clone()).unwrap_or_else(|| vec![2, 3])];
    let real_sig = hon.upgrade.as_ref().map(|u| u.signature.clone()).unwrap_or_else(|| vec![5u8; 64]);
    let sigs: Vec<Vec<u8>> = vec![vec![], real_sig[..63.min(real_sig.len())].to_vec(), real_sig.clone(), [real_sig.clone(), vec![0]].concat()];
    // variants per section
    let mut vb: Vec<DataBlock> = vec![];
    for &i in &idx {
        for v in &values {
            for l in &lists {
                vb.push(DataBlock { index: i, value: v.clone(), nodes: l.clone() });
            }
        }
    }
    let mut vh: Vec<DataHash> = vec![];
    for &i in &dedup(vec![0, 1, 2 * n.saturating_sub(1), 2 * n, (1 << 40) - 1]) {
        for l in &lists {
            vh.push(DataHash { index: i, nodes: l.clone() });
        }
    }
    let mut vs: Vec<DataSeek> = vec![];
    for &b in &dedup(vec![0, 1, s.m.saturating_sub(1), s.m, s.m + 1, BIG]) {
        for l in &lists {
            vs.push(DataSeek { bytes: b, nodes: l.clone() });
        }
    }
    let mut vu: Vec<DataUpgrade> = vec![];
    for &a in &ul {
        for &b in &ul {
            for l in if quick { &lists_small } else { &lists } {
                for add in &lists_small {
                    for sg in &sigs {
                        vu.push(DataUpgrade { start: a, length: b, nodes: l.clone(), additional_nodes: add.clone(), signature: sg.clone() });
                    }
                }
            }
        }
    }
    let opt = |present: bool, x: &Option<DataBlock>| if present { x.clone() } else { None };
    let h0 = health(&mut s.core, n);
    let mut count = 0u64;
    let mut verdicts = [0u64; 4];
    let mut run = |p: Proof, what: &str, count: &mut u64, verdicts: &mut [u64; 4]| {
        *count += 1;
        if *count % 256 == 0 {
            crate::sup::tick();
        }
        // a fresh instance per proof: an accepted proof must not influence the next case
        let (mut c, out) = Core::from_image(s.image.clone(), CacheCfg::Off);
        if !out.is_ok() {
            return;
        }
        let res = apply_proof(c.c(), &p);
        match &res {
            Out::Ok(true) => verdicts[0] += 1,
            Out::Ok(false) => verdicts[1] += 1,
            Out::Err(_) => verdicts[2] += 1,
            Out::Panic(_) => verdicts[3] += 1,
        }
        let mut viol: Option<(String, String, String)> = None;
        if let Out::Panic(pm) = &res {
            let loc = pm.split(':').take(2).collect::<Vec<_>>().join(":");
            viol = Some(("apply-panics".into(), format!("panic at {loc}"), format!("verify_and_apply_proof panicked: {pm}")));
        } else {
            let h1 = health(&mut c, n);
            match (&res, &h1) {
                (_, Out::Panic(pm)) => viol = Some(("unusable-after-proof".into(), "health-probe-panics".into(), format!("info/has/get panicked afterwards: {pm}"))),
                (Out::Ok(true), _) => {}
                (_, h1) => {
                    if h1 != &h0 {
                        viol = Some(("refused-but-changed".into(), format!("section={what}"), format!("answers changed after a refused proof: before {} after {}", h0.brief(), h1.brief())));
                    }
                }
            }
        }
        if let Some((clause, sig, detail)) = viol {
            let pj = proof_json(&p);
            rep.violate(
                &clause,
                sig,
                format!("core [{}], arbitrary proof varying {what}: {detail}; proof = {}", spec.name, pj.to_string().chars().take(400).collect::<String>()),
                json!({"prop": "C09", "what": "proof", "core": spec, "proof": pj}),
                pj.to_string().len(),
            );
        }
    };
    let combos: Vec<(bool, bool, bool)> = (0..8).map(|k| (k & 1 == 1, k & 2 == 2, k & 4 == 4)).collect();
    for b in &vb {
        for &(x, y, z) in &combos {
            let p = Proof { fork: 0, block: Some(b.clone()), hash: None, seek: if y { hon.seek.clone() } else { None }, upgrade: if z { hon.upgrade.clone() } else { None } };
            let _ = x;
            run(p, "block", &mut count, &mut verdicts);
        }
    }
    for h in &vh {
        for &(x, y, z) in &combos {
            let p = Proof { fork: 0, block: opt(x, &hon.block), hash: Some(h.clone()), seek: if y { hon.seek.clone() } else { None }, upgrade: if z { hon.upgrade.clone() } else { None } };
            run(p, "hash", &mut count, &mut verdicts);
        }
    }
    for sk in &vs {
        for &(x, y, z) in &combos {
            let p = Proof { fork: 0, block: opt(x, &hon.block), hash: if y && !x { hon.hash.clone() } else { None }, seek: Some(sk.clone()), upgrade: if z { hon.upgrade.clone() } else { None } };
            run(p, "seek", &mut count, &mut verdicts);
        }
    }
    for u in &vu {
        for &(x, y, z) in &combos {
            if quick && (x as u8 + y as u8 + z as u8) == 2 {
                continue;
            }
            let p = Proof { fork: 0, block: opt(x, &hon.block), hash: if y && !x { hon.hash.clone() } else { None }, seek: if z { hon.seek.clone() } else { None }, upgrade: Some(u.clone()) };
            run(p, "upgrade", &mut count, &mut verdicts);
        }
    }
    // honest partial upgrades (they carry additional nodes) with every node index of the upgrade
    // section replaced by every small tree index: the walks that place those nodes must terminate
    {
        let mut w = c03::build_writer(&spec.whist);
        let wl = w.model.len();
        for start in 0..wl.min(3) {
            for l in start + 1..=wl {
                let Out::Ok(Some(hp)) = guard(w.core.c().create_proof(None, None, None, Some(RequestUpgrade { start, length: l - start }))) else { continue };
                let Some(u) = hp.upgrade.as_ref() else { continue };
                for which in 0..2 {
                    let list = if which == 0 { &u.nodes } else { &u.additional_nodes };
                    for k in 0..list.len() {
                        let (_, sz, h) = node_parts(&list[k]);
                        for j in 0..=2 * wl + 3 {
                            let mut p = hp.clone();
                            let uu = p.upgrade.as_mut().unwrap();
                            if which == 0 {
                                uu.nodes[k] = mk_node(j, sz, &h);
                            } else {
                                uu.additional_nodes[k] = mk_node(j, sz, &h);
                            }
                            run(p, "upgrade-node-index", &mut count, &mut verdicts);
                        }
                    }
                }
            }
        }
    }
    // fork values and an empty proof
    for f in [0u64, 1, BIG] {
        run(Proof { fork: f, block: hon.block.clone(), hash: None, seek: None, upgrade: hon.upgrade.clone() }, "fork", &mut count, &mut verdicts);
        run(Proof { fork: f, block: None, hash: None, seek: None, upgrade: None }, "empty", &mut count, &mut verdicts);
    }
    stats.add("proofs", count);
    stats.add("proofs_accepted", verdicts[0]);
    stats.add("proofs_false", verdicts[1]);
    stats.add("proofs_err", verdicts[2]);
}

fn nodes_json(v: &[Node]) -> Value {
    json!(v.iter().map(|n| { let (i, l, h) = node_parts(n); json!([i, l, h.iter().map(|b| format!("{b:02x}")).collect::<String>()]) }).collect::<Vec<_>>())
}
pub fn proof_json(p: &Proof) -> Value {
    json!({
        "fork": p.fork,
        "block": p.block.as_ref().map(|b| json!({"index": b.index, "value": b.value, "nodes": nodes_json(&b.nodes)})),
        "hash": p.hash.as_ref().map(|b| json!({"index": b.index, "nodes": nodes_json(&b.nodes)})),
        "seek": p.seek.as_ref().map(|b| json!({"bytes": b.bytes, "nodes": nodes_json(&b.nodes)})),
        "upgrade": p.upgrade.as_ref().map(|u| json!({"start": u.start, "length": u.length, "nodes": nodes_json(&u.nodes), "additional_nodes": nodes_json(&u.additional_nodes), "signature": u.signature})),
    })
}
fn nodes_from(v: &Value) -> Vec<Node> {
    v.as_array()
        .map(|a| {
            a.iter()
                .map(|n| {
                    let hs = n[2].as_str().unwrap_or("");
                    let mut h = [0u8; 32];
                    for k in 0..32.min(hs.len() / 2) {
                        h[k] = u8::from_str_radix(&hs[2 * k..2 * k + 2], 16).unwrap_or(0);
                    }
                    mk_node(n[0].as_u64().unwrap_or(0), n[1].as_u64().unwrap_or(0), &h)
                })
                .collect()
        })
        .unwrap_or_default()
}
pub fn proof_from(v: &Value) -> Proof {
    let bytes = |x: &Value| -> Vec<u8> { serde_json::from_value(x.clone()).unwrap_or_default() };
    Proof {
        fork: v["fork"].as_u64().unwrap_or(0),
        block: if v["block"].is_null() { None } else { Some(DataBlock { index: v["block"]["index"].as_u64().unwrap_or(0), value: bytes(&v["block"]["value"]), nodes: nodes_from(&v["block"]["nodes"]) }) },
        hash: if v["hash"].is_null() { None } else { Some(DataHash { index: v["hash"]["index"].as_u64().unwrap_or(0), nodes: nodes_from(&v["hash"]["nodes"]) }) },
        seek: if v["seek"].is_null() { None } else { Some(DataSeek { bytes: v["seek"]["bytes"].as_u64().unwrap_or(0), nodes: nodes_from(&v["seek"]["nodes"]) }) },
        upgrade: if v["upgrade"].is_null() { None } else {
            Some(DataUpgrade { start: v["upgrade"]["start"].as_u64().unwrap_or(0), length: v["upgrade"]["length"].as_u64().unwrap_or(0), nodes: nodes_from(&v["upgrade"]["nodes"]),
                additional_nodes: nodes_from(&v["upgrade"]["additional_nodes"]), signature: bytes(&v["upgrade"]["signature"]) })
        },
    }
}

pub fn run(tier: &str) -> i32 {
    let quick = tier == "quick";
    let rep = Report::new("C09", tier, "exploration");
    let stats = Stats::default();
    let specs = core_specs(quick);
    let sat_cache = std::sync::Mutex::new(std::collections::BTreeMap::new());
    // work items: (spec, request sweep) and (spec, proof sweep)
    let items: Vec<(usize, bool)> = (0..specs.len()).flat_map(|i| [(i, false), (i, true)]).collect();
    let idx = AtomicUsize::new(0);
    let (specs_ref, items_ref, sat_ref) = (&specs, &items, &sat_cache);
    std::thread::scope(|s| {
        for _ in 0..nthreads().min(items_ref.len()) {
            s.spawn(|| loop {
                let i = idx.fetch_add(1, Ordering::Relaxed);
                if i >= items_ref.len() {
                    crate::sup::clear_case();
                    break;
                }
                let (si, proofs) = items_ref[i];
                let spec = &specs_ref[si];
                crate::sup::set_case(&json!({"prop": "C09", "what": if proofs { "proof-sweep" } else { "request-sweep" }, "core": spec, "quick": quick}).to_string());
                let Some(mut subj) = build_subject(spec, sat_ref) else { continue };
                if proofs {
                    proof_sweep(spec, &mut subj, &rep, &stats, quick);
                } else {
                    request_sweep(spec, &mut subj, &rep, &stats, quick);
                }
            });
        }
    });
    let coverage = json!({
        "evaluations": stats.get("requests") + stats.get("proofs"),
        "distinct_nontrivial": stats.get("requests_ok") + stats.get("proofs_accepted") + specs.len() as u64,
        "rule": "per core: the product of block{index,nodes} x hash{index,nodes} x seek{bytes} x upgrade{start,length} over boundary values around 0, length, 2*length and 2^39..2^40 (quick thins the block x hash cross product) is passed to create_proof; structurally arbitrary proofs vary one section exhaustively (indices, node lists of length 0..2 drawn from real / index+-1 / index 0 / index 2^40-1 / zero hash / huge size nodes, values, upgrade start/length, signature lengths 0/63/64/65) while the other sections are absent or honest, each applied to a fresh instance. Oracle: a value or an error, never a panic/abort/hang (watchdog), and identical info/has/get answers afterwards unless the proof was accepted; distinct_nontrivial = requests answered with a proof + arbitrary proofs accepted + cores (measured)",
        "cores": specs.iter().map(|s| s.name.clone()).collect::<Vec<_>>(),
        "requests": stats.get("requests"),
        "requests_answered": stats.get("requests_ok"),
        "requests_refused": stats.get("requests_err"),
        "arbitrary_proofs": stats.get("proofs"),
        "arbitrary_proofs_accepted": stats.get("proofs_accepted"),
        "arbitrary_proofs_false": stats.get("proofs_false"),
        "arbitrary_proofs_err": stats.get("proofs_err"),
        "samples": [
            "writer n=5: create_proof(block {index: 2^39, nodes: 64}, hash None, seek {bytes: m+1}, upgrade {start: n-1, length: 2n})",
            "replica state #120: verify_and_apply_proof(block {index: n, value: [], nodes: [real, index 2^40-1]}, upgrade honest)",
            "writer n=0: verify_and_apply_proof(upgrade {start: 0, length: 0, nodes: [], signature: 63 bytes})"
        ],
        "exhaustive": true,
    });
    rep.finish(coverage, vec!["numeric fields stay below 2^40 as in the statement".into(), "the C04 alteration sweep additionally reports any panic it provokes".into()])
}

pub fn replay(case: &Value, rep: &Report) {
    let Ok(spec) = serde_json::from_value::<CoreSpec>(case["core"].clone()) else { return };
    let sat = std::sync::Mutex::new(std::collections::BTreeMap::new());
    let stats = Stats::default();
    let quick = case["quick"].as_bool().unwrap_or(false);
    let Some(mut subj) = build_subject(&spec, &sat) else { return };
    match case["what"].as_str().unwrap_or("") {
        "request" => {
            let rb = |v: &Value| v.as_array().map(|a| RequestBlock { index: a[0].as_u64().unwrap_or(0), nodes: a[1].as_u64().unwrap_or(0) });
            let b = rb(&case["block"]);
            let h = rb(&case["hash"]);
            let s = case["seek"].as_u64().map(|b| RequestSeek { bytes: b });
            let u = case["upgrade"].as_array().map(|a| RequestUpgrade { start: a[0].as_u64().unwrap_or(0), length: a[1].as_u64().unwrap_or(0) });
            if let Out::Panic(p) = guard(subj.core.c().create_proof(b, h, s, u)) {
                rep.violate("create-proof-panics", "replay".into(), p, case.clone(), 1);
            }
        }
        "proof" => {
            let p = proof_from(&case["proof"]);
            let h0 = health(&mut subj.core, subj.n);
            let (mut c, out) = Core::from_image(subj.image.clone(), CacheCfg::Off);
            if !out.is_ok() {
                return;
            }
            match apply_proof(c.c(), &p) {
                Out::Panic(pm) => rep.violate("apply-panics", "replay".into(), pm, case.clone(), 1),
                Out::Ok(true) => {}
                _ => {
                    let h1 = health(&mut c, subj.n);
                    if h1 != h0 {
                        rep.violate("refused-but-changed", "replay".into(), format!("before {} after {}", h0.brief(), h1.brief()), case.clone(), 1);
                    }
                }
            }
        }
        "proof-sweep" => proof_sweep(&spec, &mut subj, rep, &stats, quick),
        _ => request_sweep(&spec, &mut subj, rep, &stats, quick),
    }
}
