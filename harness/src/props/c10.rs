//! C10 — a storage error surfaces as an error and is recoverable by reopening.
use super::faults::*;
use crate::report::Report;
use serde_json::Value;

pub fn cfg(_tier: &str) -> FaultCfg {
    FaultCfg {
        prop: "C10",
        crash: false,
        torn: TornMode::Off,
        io_faults: true,
        with_contig: false,
        cont_depth: 1,
        double_fault: false,
        check_secret: false,
        thin_over: 0,
    }
}

pub fn run(tier: &str) -> i32 {
    run_fault_property(
        "C10",
        tier,
        "fault_enumeration",
        cfg(tier),
        fault_families(tier, -1),
        vec!["one storage operation fails once with an I/O error and is not applied; later operations behave normally".into()],
    )
}

pub fn replay(case: &Value, rep: &Report) {
    replay_fault("C10", cfg("thorough"), case, rep)
}
