//! C11 — wire messages round-trip exactly and match the compact-encoding spec.
//! E4: bounded-exhaustive enumeration of field values at every varint boundary, byte strings of
//! every length 0..300, node lists of every length 0..8, and every strict prefix of each
//! encoding; differential against the independent compact-encoding reference.

use super::common::nthreads;
use crate::cenc::{self, RNodeMsg};
use crate::drv::{guard_sync, Out};
use crate::report::{FpSet, Report, Stats};
use compact_encoding::CompactEncoding;
use hypercore::{DataBlock, DataHash, DataSeek, DataUpgrade, Node, RequestBlock, RequestSeek, RequestUpgrade};
use serde_json::{json, Value};

const B: [u64; 8] = [0, 252, 253, 65535, 65536, (1 << 32) - 1, 1 << 32, u64::MAX];

fn bytes_of(len: usize, pat: u8) -> Vec<u8> {
    match pat {
        0 => vec![0u8; len],
        1 => vec![0xffu8; len],
        _ => (0..len).map(|i| i as u8).collect(),
    }
}
fn hash_of(pat: u8) -> [u8; 32] {
    let mut h = [0u8; 32];
    h.copy_from_slice(&bytes_of(32, pat.max(1)));
    h
}
fn rnodes(n: usize, rot: usize) -> Vec<RNodeMsg> {
    (0..n)
        .map(|k| RNodeMsg {
            index: B[(k + rot) % 8],
            size: B[(k * 3 + rot + 1) % 8],
            hash: hash_of(((k + rot) % 2) as u8 + 1),
        })
        .collect()
}
fn nodes(v: &[RNodeMsg]) -> Vec<Node> {
    v.iter().map(|n| Node::new(n.index, n.hash.to_vec(), n.size)).collect()
}

/// A message value together with its reference encoding.
#[derive(Clone)]
enum Msg {
    Node(RNodeMsg),
    ReqBlock(u64, u64),
    ReqSeek(u64),
    ReqUpgrade(u64, u64),
    Block(u64, Vec<u8>, Vec<RNodeMsg>),
    Hash(u64, Vec<RNodeMsg>),
    Seek(u64, Vec<RNodeMsg>),
    Upgrade(u64, u64, Vec<RNodeMsg>, Vec<RNodeMsg>, Vec<u8>),
}

impl Msg {
    fn kind(&self) -> &'static str {
        match self {
            Msg::Node(_) => "Node",
            Msg::ReqBlock(..) => "RequestBlock",
            Msg::ReqSeek(_) => "RequestSeek",
            Msg::ReqUpgrade(..) => "RequestUpgrade",
            Msg::Block(..) => "DataBlock",
            Msg::Hash(..) => "DataHash",
            Msg::Seek(..) => "DataSeek",
            Msg::Upgrade(..) => "DataUpgrade",
        }
    }
    fn brief(&self) -> String {
        match self {
            Msg::Node(n) => format!("Node{{index:{},length:{}}}", n.index, n.size),
            Msg::ReqBlock(a, b) => format!("RequestBlock{{index:{a},nodes:{b}}}"),
            Msg::ReqSeek(a) => format!("RequestSeek{{bytes:{a}}}"),
            Msg::ReqUpgrade(a, b) => format!("RequestUpgrade{{start:{a},length:{b}}}"),
            Msg::Block(i, v, n) => format!("DataBlock{{index:{i},value:{}B,nodes:{}}}", v.len(), n.len()),
            Msg::Hash(i, n) => format!("DataHash{{index:{i},nodes:{}}}", n.len()),
            Msg::Seek(i, n) => format!("DataSeek{{bytes:{i},nodes:{}}}", n.len()),
            Msg::Upgrade(s, l, n, a, sig) => format!("DataUpgrade{{start:{s},length:{l},nodes:{},additional:{},signature:{}B}}", n.len(), a.len(), sig.len()),
        }
    }
    fn reference(&self) -> Vec<u8> {
        let mut o = vec![];
        match self {
            Msg::Node(n) => cenc::enc_node(&mut o, n),
            Msg::ReqBlock(a, b) | Msg::ReqUpgrade(a, b) => {
                cenc::put_uint(&mut o, *a);
                cenc::put_uint(&mut o, *b);
            }
            Msg::ReqSeek(a) => cenc::put_uint(&mut o, *a),
            Msg::Block(i, v, n) => {
                cenc::put_uint(&mut o, *i);
                cenc::put_buf(&mut o, v);
                cenc::enc_nodes(&mut o, n);
            }
            Msg::Hash(i, n) | Msg::Seek(i, n) => {
                cenc::put_uint(&mut o, *i);
                cenc::enc_nodes(&mut o, n);
            }
            Msg::Upgrade(s, l, n, a, sig) => {
                cenc::put_uint(&mut o, *s);
                cenc::put_uint(&mut o, *l);
                cenc::enc_nodes(&mut o, n);
                cenc::enc_nodes(&mut o, a);
                cenc::put_buf(&mut o, sig);
            }
        }
        o
    }
}

/// encode with the crate, compare with the reference, decode, try every strict prefix
fn check_typed<T: CompactEncoding + PartialEq + std::fmt::Debug>(v: &T, reference: &[u8], prefixes: &mut u64) -> Option<(String, String)> {
    let size = match guard_sync(|| v.encoded_size()) {
        Out::Ok(Ok(s)) => s,
        Out::Ok(Err(e)) => return Some(("encoded-size-fails".into(), format!("{e}"))),
        Out::Panic(p) => return Some(("panic".into(), format!("encoded_size: {p}"))),
        Out::Err(e) => return Some(("panic".into(), e)),
    };
    if size != reference.len() {
        return Some(("announced-size".into(), format!("encoded_size() = {size}, the reference encoding has {} bytes", reference.len())));
    }
    let mut buf = vec![0xAAu8; size];
    let written = match guard_sync(|| v.encode(&mut buf).map(|rest| rest.len())) {
        Out::Ok(Ok(rest)) => size - rest,
        Out::Ok(Err(e)) => return Some(("encode-fails".into(), format!("{e}"))),
        Out::Panic(p) => return Some(("panic".into(), format!("encode: {p}"))),
        Out::Err(e) => return Some(("panic".into(), e)),
    };
    if written != size {
        return Some(("bytes-written".into(), format!("encode wrote {written} bytes, announced {size}")));
    }
    if buf != reference {
        let at = buf.iter().zip(reference).position(|(a, b)| a != b).unwrap_or(0);
        return Some(("bytes-differ".into(), format!("encoding differs from the reference at byte {at}: {:02x?} vs {:02x?}", &buf[at..(at + 8).min(buf.len())], &reference[at..(at + 8).min(reference.len())])));
    }
    match guard_sync(|| T::decode(&buf).map(|(x, rest)| (x, rest.len()))) {
        Out::Ok(Ok((x, rest))) => {
            if rest != 0 {
                return Some(("decode-leftover".into(), format!("decode left {rest} bytes")));
            }
            if &x != v {
                return Some(("roundtrip".into(), format!("decode(encode(v)) = {:?}", x).chars().take(200).collect()));
            }
        }
        Out::Ok(Err(e)) => return Some(("decode-fails".into(), format!("{e}"))),
        Out::Panic(p) => return Some(("panic".into(), format!("decode: {p}"))),
        Out::Err(e) => return Some(("panic".into(), e)),
    }
    for cut in 0..size {
        *prefixes += 1;
        match guard_sync(|| T::decode(&buf[..cut]).map(|_| ())) {
            Out::Ok(Err(_)) => {}
            Out::Ok(Ok(())) => return Some(("prefix-accepted".into(), format!("decode of the first {cut} of {size} bytes returned Ok"))),
            Out::Panic(p) => return Some(("prefix-panics".into(), format!("decode of the first {cut} of {size} bytes panicked: {p}"))),
            Out::Err(e) => return Some(("prefix-panics".into(), e)),
        }
    }
    None
}

fn check(m: &Msg, prefixes: &mut u64) -> Option<(String, String)> {
    let r = m.reference();
    match m {
        Msg::Node(n) => check_typed(&Node::new(n.index, n.hash.to_vec(), n.size), &r, prefixes),
        Msg::ReqBlock(a, b) => check_typed(&RequestBlock { index: *a, nodes: *b }, &r, prefixes),
        Msg::ReqSeek(a) => check_typed(&RequestSeek { bytes: *a }, &r, prefixes),
        Msg::ReqUpgrade(a, b) => check_typed(&RequestUpgrade { start: *a, length: *b }, &r, prefixes),
        Msg::Block(i, v, n) => check_typed(&DataBlock { index: *i, value: v.clone(), nodes: nodes(n) }, &r, prefixes),
        Msg::Hash(i, n) => check_typed(&DataHash { index: *i, nodes: nodes(n) }, &r, prefixes),
        Msg::Seek(i, n) => check_typed(&DataSeek { bytes: *i, nodes: nodes(n) }, &r, prefixes),
        Msg::Upgrade(s, l, n, a, sig) => check_typed(
            &DataUpgrade { start: *s, length: *l, nodes: nodes(n), additional_nodes: nodes(a), signature: sig.clone() },
            &r,
            prefixes,
        ),
    }
}

fn values(quick: bool) -> Vec<Msg> {
    let mut v = vec![];
    for &a in &B {
        v.push(Msg::ReqSeek(a));
        for &b in &B {
            v.push(Msg::ReqBlock(a, b));
            v.push(Msg::ReqUpgrade(a, b));
            for p in 1..=2 {
                v.push(Msg::Node(RNodeMsg { index: a, size: b, hash: hash_of(p) }));
            }
        }
    }
    let lens: Vec<usize> = (0..=300).collect();
    let lists: Vec<usize> = (0..=8).collect();
    for (li, &len) in lens.iter().enumerate() {
        for pat in 0..3u8 {
            for (ni, &nl) in lists.iter().enumerate() {
                if quick {
                    let idx = B[(li + ni + pat as usize) % 8];
                    v.push(Msg::Block(idx, bytes_of(len, pat), rnodes(nl, li + ni)));
                } else if pat == (li % 3) as u8 {
                    // thorough: full product of index boundary x length x list length
                    for &idx in &B {
                        v.push(Msg::Block(idx, bytes_of(len, pat), rnodes(nl, li + ni)));
                    }
                }
            }
        }
    }
    for &nl in &lists {
        for rot in 0..8 {
            v.push(Msg::Hash(B[rot], rnodes(nl, rot)));
            v.push(Msg::Seek(B[(rot + 3) % 8], rnodes(nl, rot + 1)));
        }
    }
    let sigs: Vec<usize> = (0..=300).collect();
    for (si, &sl) in sigs.iter().enumerate() {
        for &nl in &lists {
            for &al in &lists {
                if quick && sl > 70 && (nl + al) % 3 != si % 3 {
                    continue; // thorough: every signature length, list lengths rotated
                }
                v.push(Msg::Upgrade(B[(si + nl) % 8], B[(si + al + 5) % 8], rnodes(nl, si), rnodes(al, si + 2), bytes_of(sl, (si % 3) as u8)));
            }
        }
    }
    v
}

pub fn run(tier: &str) -> i32 {
    let quick = tier == "quick";
    let rep = Report::new("C11", tier, "exploration");
    let stats = Stats::default();
    let distinct = FpSet::default();
    let vals = values(quick);
    let idx = std::sync::atomic::AtomicUsize::new(0);
    let vals_ref = &vals;
    std::thread::scope(|s| {
        for _ in 0..nthreads() {
            s.spawn(|| {
                let mut prefixes = 0u64;
                let mut n = 0u64;
                loop {
                    let i = idx.fetch_add(1, std::sync::atomic::Ordering::Relaxed);
                    if i >= vals_ref.len() {
                        break;
                    }
                    let m = &vals_ref[i];
                    if i % 64 == 0 {
                        crate::sup::set_case(&json!({"prop":"C11","what":"msg","index":i}).to_string());
                    }
                    n += 1;
                    distinct.insert(crate::env::fp128(&[&m.reference(), m.kind().as_bytes()]));
                    if let Some((clause, detail)) = check(m, &mut prefixes) {
                        rep.violate(
                            &clause,
                            format!("type={}", m.kind()),
                            format!("{}: {}", m.brief(), detail),
                            json!({"prop": "C11", "what": "msg", "index": i, "quick": quick, "brief": m.brief()}),
                            m.reference().len(),
                        );
                    }
                }
                stats.add("values", n);
                stats.add("prefix_decodes", prefixes);
                crate::sup::clear_case();
            });
        }
    });
    let coverage = json!({
        "evaluations": stats.get("values") + stats.get("prefix_decodes"),
        "distinct_nontrivial": distinct.len(),
        "rule": "every value of Node, RequestBlock/Seek/Upgrade, DataBlock/Hash/Seek/Upgrade with integer fields over {0,252,253,65535,65536,2^32-1,2^32,2^64-1} (full product for the scalar types), byte strings of the listed lengths with three content patterns, node lists of the listed lengths with nodes rotating through the boundaries: encoded_size = bytes written = reference length, bytes = reference encoding, decode = original with nothing left, and every strict prefix decodes to an error; distinct_nontrivial = distinct reference encodings",
        "values": stats.get("values"),
        "prefix_decodes": stats.get("prefix_decodes"),
        "value_lengths": "0..=300 (three content patterns; thorough: x all 8 index boundaries)",
        "list_lengths": "0..=8",
        "samples": vals.iter().step_by(vals.len() / 5 + 1).map(|m| m.brief()).collect::<Vec<_>>(),
        "exhaustive": true,
    });
    rep.finish(coverage, vec!["the reference encoder/decoder in harness/src/cenc.rs is the oracle".into()])
}

pub fn replay(case: &Value, rep: &Report) {
    let quick = case["quick"].as_bool().unwrap_or(true);
    let i = case["index"].as_u64().unwrap_or(0) as usize;
    let vals = values(quick);
    if let Some(m) = vals.get(i) {
        let mut p = 0;
        if let Some((clause, detail)) = check(m, &mut p) {
            rep.violate(&clause, format!("type={}", m.kind()), format!("{}: {}", m.brief(), detail), case.clone(), 1);
        }
    }
}
