//! C12 — secret key hygiene: read-only cores cannot write and leave no key on disk.

use super::c03;
use super::common::*;
use super::faults::*;
use crate::drv::*;
use crate::env;
use crate::explore::*;
use crate::report::{FpSet, Report, Stats};
use serde_json::{json, Value};
use std::collections::BTreeMap;

fn seed() -> [u8; 32] {
    [KEY_SEED; 32]
}

fn contains_secret(img: &env::Image) -> Option<(usize, usize)> {
    let s = seed();
    for (fi, f) in img.iter().enumerate() {
        if f.len() >= 32 {
            if let Some(pos) = f.windows(32).position(|w| w == s) {
                return Some((fi, pos));
            }
        }
    }
    None
}

struct V<'a> {
    rep: &'a Report,
    stats: &'a Stats,
    states: &'a FpSet,
    fault: FaultVisitor<'a>,
    local: BTreeMap<&'static str, u64>,
}
impl<'a> Drop for V<'a> {
    fn drop(&mut self) {
        self.stats.merge_local(&self.local);
    }
}

impl<'a> Visitor for V<'a> {
    fn visit(&mut self, cx: &mut Cx<'_>) {
        *self.local.entry("states_checked").or_insert(0) += 1;
        let op = cx.op().clone();
        let after = cx.sys.m.clone();
        let mut viol = check_result(&op, cx.out, cx.before, &after);
        let img = cx.sys.wr.image();
        if self.states.insert(env::fp_image(&img, format!("{:?}", cx.sys.since_open_w).as_bytes())) {
            *self.local.entry("distinct_states").or_insert(0) += 1;
        }
        let is_append = matches!(op, Op::Append(_) | Op::Batch(_) | Op::BatchN(_));
        if viol.is_none() && !cx.before.w.writable && is_append {
            *self.local.entry("appends_on_keyless_core").or_insert(0) += 1;
            // refused append must change nothing: no storage operation, same image
            let jl = env::journal_len(&cx.sys.wr.w);
            if jl != cx.jstart {
                viol = Some(("refused-append-wrote".into(), format!("a refused append issued {} mutating storage operations", jl - cx.jstart)));
            } else if &img != cx.img_before {
                viol = Some(("refused-append-wrote".into(), "storage image changed by a refused append".into()));
            }
        }
        if viol.is_none() && !after.w.writable {
            *self.local.entry("secret_scans").or_insert(0) += 1;
            if let Some((f, pos)) = contains_secret(&img) {
                viol = Some(("secret-on-disk".into(), format!("the secret key seed is still in the {} store at byte {}", env::STORE_NAMES[f], pos)));
            }
        }
        if viol.is_none() && (cx.out.is_ok() || !cx.before.w.writable && is_append) {
            let (d, _) = observe_and_diff(cx, false, false);
            viol = d;
        }
        if viol.is_none() {
            // opening the existing storage recovers the stored public key and writability
            let (mut c2, out) = Core::from_image(img.clone(), CacheCfg::Off);
            match out {
                Out::Ok(()) => {
                    let kp = c2.c().key_pair().clone();
                    let info = c2.c().info();
                    if kp.public.to_bytes() != key_pair(KEY_SEED).public.to_bytes() {
                        viol = Some(("open-wrong-key".into(), "open(true) reports a different public key".into()));
                    } else if info.writeable != after.w.writable || kp.secret.is_some() != after.w.writable {
                        viol = Some(("open-wrong-writability".into(), format!("open(true) reports writeable {} expected {}", info.writeable, after.w.writable)));
                    } else if !after.w.writable {
                        // second make_read_only reports that nothing changed; appends refused
                        match guard(c2.c().make_read_only()) {
                            Out::Ok(false) => {}
                            o => viol = Some(("second-make-read-only".into(), format!("make_read_only on a reopened read-only core returned {}", o.brief()))),
                        }
                        if viol.is_none() {
                            match guard(c2.c().append(b"x")) {
                                Out::Err(e) if e.to_lowercase().contains("not writable") => {}
                                o => viol = Some(("not-writable".into(), format!("append on a reopened read-only core returned {}", o.map(|_| ()).brief()))),
                            }
                        }
                    }
                }
                o => viol = Some(("open-fails".into(), o.brief())),
            }
        }
        if viol.is_none() {
            // the other way of opening existing storage: building without open(true), with another
            // key pair or with none (a generated one): the stored header wins
            for other in [Some(key_pair(OTHER_KEY_SEED)), None] {
                *self.local.entry("builds_over_existing_storage").or_insert(0) += 1;
                let w = env::new_world(img.clone());
                let b = builder(env::storage(&w), CacheCfg::Off);
                let b = match other.clone() {
                    Some(kp) => b.key_pair(kp),
                    None => b,
                };
                let how = if other.is_some() { "build() with another key pair" } else { "build() without key pair" };
                match guard(b.build()) {
                    Out::Ok(mut c) => {
                        let kp = c.key_pair().clone();
                        let info = c.info();
                        if kp.public.to_bytes() != key_pair(KEY_SEED).public.to_bytes() {
                            viol = Some(("open-wrong-key".into(), format!("{how} over existing storage reports a different public key")));
                        } else if info.writeable != after.w.writable || kp.secret.is_some() != after.w.writable {
                            viol = Some(("open-wrong-writability".into(), format!("{how} over existing storage reports writeable {} expected {}", info.writeable, after.w.writable)));
                        } else if info.length != after.w.len() {
                            viol = Some(("open-wrong-length".into(), format!("{how} over existing storage reports length {} expected {}", info.length, after.w.len())));
                        } else if !after.w.writable {
                            match guard(c.append(b"x")) {
                                Out::Err(e) if e.to_lowercase().contains("not writable") => {}
                                o => viol = Some(("not-writable".into(), format!("append after {how} over read-only storage returned {}", o.map(|_| ()).brief()))),
                            }
                        }
                    }
                    o => viol = Some(("open-fails".into(), format!("{how} over existing storage: {}", o.map(|_| ()).brief()))),
                }
                if viol.is_some() {
                    break;
                }
            }
        }
        if let Some((clause, detail)) = viol {
            self.rep.violate(
                &clause,
                format!("last={} {}", op.kind(), features(cx.hist)),
                format!("after [{}]: {}", hist_brief(cx.hist), detail),
                cx.case("C12", "E1"),
                cx.hist.len(),
            );
            return;
        }
        if matches!(op, Op::MakeReadOnly) && cx.before.w.writable {
            *self.local.entry("make_read_only_calls").or_insert(0) += 1;
            self.fault.visit(cx);
        }
    }
}

fn fcfg(tier: &str) -> FaultCfg {
    FaultCfg {
        prop: "C12",
        crash: true,
        // the two 4096-byte header writes of make_read_only: framing-boundary cuts (every byte cut of
        // header writes is C07 thorough's job)
        torn: { let _ = tier; TornMode::Boundaries },
        io_faults: false,
        with_contig: false,
        cont_depth: 1,
        double_fault: false,
        check_secret: true,
        thin_over: 0,
    }
}

fn replica_checks(rep: &Report, stats: &Stats) {
    let whist = c03::shape(3, 0, None);
    let tmp = Report::new("C12", "quick", "fault_enumeration");
    let gs = FpSet::default();
    let r = c03::saturate("C12", &whist, vec![c03::empty_replica()], c03::Seeks::None, true, false, &tmp, stats, &gs);
    for (img, rm) in &r.kept {
        stats.add("replica_states_checked", 1);
        let (mut c, out) = Core::from_image(img.clone(), CacheCfg::Off);
        if !out.is_ok() {
            continue;
        }
        let mut viol: Option<(String, String)> = None;
        match guard(c.c().make_read_only()) {
            Out::Ok(false) => {}
            o => viol = Some(("replica-make-read-only".into(), format!("make_read_only on a replica returned {}", o.brief()))),
        }
        for batch in [vec![b"x".to_vec()], vec![b"y".to_vec(), b"zz".to_vec()]] {
            if viol.is_some() {
                break;
            }
            match guard(c.c().append_batch(&batch)) {
                Out::Err(e) if e.to_lowercase().contains("not writable") => {}
                o => viol = Some(("not-writable".into(), format!("append_batch on a replica returned {}", o.map(|_| ()).brief()))),
            }
        }
        if viol.is_none() && c.image() != *img {
            viol = Some(("refused-append-wrote".into(), "storage image of a replica changed by refused calls".into()));
        }
        if viol.is_none() && c.c().key_pair().secret.is_some() {
            viol = Some(("open-wrong-writability".into(), "a replica reports a secret key".into()));
        }
        if let Some((clause, detail)) = viol {
            rep.violate(&clause, "replica".into(), format!("replica(len {}, held {:?}) of [{}]: {}", rm.len, rm.held, hist_brief(&whist), detail),
                json!({"prop": "C12", "what": "replica"}), rm.held.len());
        }
    }
}

fn builder_check(rep: &Report) {
    // supplying a key pair together with open mode is rejected
    let w = env::new_world(env::empty_image());
    let _ = create_on(&w, key_pair(KEY_SEED), CacheCfg::Off);
    let st = env::storage(&w);
    match guard(hypercore::HypercoreBuilder::new(st).key_pair(key_pair(KEY_SEED)).open(true).build()) {
        Out::Err(_) => {}
        o => rep.violate("key-pair-with-open-accepted".into(), "builder".into(), format!("key_pair + open(true) returned {}", o.map(|_| ()).brief()), json!({"prop": "C12", "what": "builder"}), 1),
    }
}

pub fn run(tier: &str) -> i32 {
    let quick = tier == "quick";
    let rep = Report::new("C12", tier, "fault_enumeration");
    let stats = Stats::default();
    let states = FpSet::default();
    let images = FpSet::default();
    builder_check(&rep);
    replica_checks(&rep, &stats);
    let mut fams = vec![];
    let mk_alpha = |mut a: Alpha| {
        a.make_read_only = true;
        a
    };
    for (name, depth, alpha) in [
        ("full-alphabet+mro", if quick { 3 } else { 4 }, mk_alpha(Alpha::full())),
        ("medium-alphabet+mro", 5, mk_alpha(Alpha::medium())),
        ("small-alphabet+mro", if quick { 6 } else { 7 }, mk_alpha(Alpha::small())),
        (
            "append-reopen+mro",
            if quick { 9 } else { 12 },
            mk_alpha(Alpha { sizes: vec![1], batches: vec![], clears: Clears::None, reopen: true, make_read_only: false, max_len: u64::MAX, far_clear: false }),
        ),
    ] {
        let a2 = alpha.clone();
        let af = move |m: &SysModel, _d: usize| a2.ops(m);
        let e = E1 { prop: "C12", depth, with_replica: false, prefix: vec![], alphabet: &af, threads: nthreads(), cache: CacheCfg::Off, altered: None };
        let mk = || V { rep: &rep, stats: &stats, states: &states, fault: FaultVisitor::new(fcfg(tier), &rep, &stats, &images), local: BTreeMap::new() };
        let (vs, leaves) = e.run(&mk);
        drop(vs);
        fams.push(json!({"family": name, "depth": depth, "complete_histories": leaves}));
    }
    let coverage = json!({
        "evaluations": stats.get("states_checked") + stats.get("recoveries") + stats.get("replica_states_checked"),
        "distinct_nontrivial": states.len() + images.len(),
        "rule": "E1 over append/batch/clear/reopen/make_read_only alphabets: in every state the call result, info/has/get vs the model, open(true) on the image (stored public key, writability, second make_read_only = false, append = NotWritable) and build() without open mode over the image (with another key pair and with none: stored public key, writability and length win) are checked; in every state after make_read_only all four files are scanned for the 32-byte secret seed; refused appends must issue no storage operation; every crash point and torn cut inside every make_read_only call recovers a writable-or-read-only core with all data; replicas: make_read_only = false, appends refused, nothing written; builder rejects key_pair + open. distinct_nontrivial = distinct states + distinct fault images",
        "families": fams,
        "make_read_only_calls": stats.get("make_read_only_calls"),
        "secret_scans": stats.get("secret_scans"),
        "appends_on_keyless_core": stats.get("appends_on_keyless_core"),
        "builds_over_existing_storage": stats.get("builds_over_existing_storage"),
        "crash_points": stats.get("crash_points"),
        "torn_images": stats.get("torn_images"),
        "replica_states_checked": stats.get("replica_states_checked"),
        "samples": ["append[1]; append[1]; make_read_only; append[1]; reopen", "batch[1,2]; clear(0,1); reopen; make_read_only (crash at each of its storage operations)"],
        "exhaustive": true,
    });
    rep.finish(coverage, vec!["the secret is the 32-byte Ed25519 seed; block contents are at most 3 bytes so they cannot contain it".into()])
}

pub fn replay(case: &Value, rep: &Report) {
    let stats = Stats::default();
    match case["what"].as_str().unwrap_or("") {
        "replica" => replica_checks(rep, &stats),
        "builder" => builder_check(rep),
        _ => {
            let hist = parse_hist(case);
            let states = FpSet::default();
            let images = FpSet::default();
            let mut v = V { rep, stats: &stats, states: &states, fault: FaultVisitor::new(fcfg("thorough"), rep, &stats, &images), local: BTreeMap::new() };
            replay_history(&hist, false, CacheCfg::Off, None, &mut v);
        }
    }
}
