//! C13 — replication events announce exactly the state changes that happened.
//! E1 with explicit get symbols; a new subscriber is attached before every call (so every
//! attach position is covered in one execution), all receivers are drained after every call and
//! each subscriber attached before the call must have seen exactly the expected events.

use super::common::*;
use super::faults::replica_ops;
use crate::alter::{mk_node, node_parts};
use crate::drv::*;
use crate::explore::*;
use crate::report::{FpSet, Report, Stats};
use async_broadcast::Receiver;
use hypercore::replication::Event;
use hypercore::Proof;
use serde_json::{json, Value};
use std::sync::atomic::{AtomicUsize, Ordering};

#[derive(Debug, Clone, PartialEq, Eq)]
enum Ev {
    Upgrade,
    Have(u64, u64, bool),
    Get(u64),
}

fn drain(rx: &mut Receiver<Event>) -> Vec<Ev> {
    let mut v = vec![];
    while let Ok(e) = rx.try_recv() {
        v.push(match e {
            Event::DataUpgrade(_) => Ev::Upgrade,
            Event::Have(h) => Ev::Have(h.start, h.length, h.drop),
            Event::Get(g) => Ev::Get(g.index),
        });
        if v.len() > 100 {
            break;
        }
    }
    v
}

/// three representative must-refuse alterations (C04 classes)
pub fn alter_for_events(p: &Proof, id: u8) -> Option<Proof> {
    let mut q = p.clone();
    match id {
        0 => {
            if let Some(b) = q.block.as_mut() {
                if b.value.is_empty() {
                    b.value.push(1);
                } else {
                    b.value[0] ^= 1;
                }
            } else if let Some(h) = q.hash.as_mut() {
                let n = h.nodes.first()?;
                let (i, l, mut hh) = node_parts(n);
                hh[0] ^= 1;
                h.nodes[0] = mk_node(i, l, &hh);
            } else {
                let u = q.upgrade.as_mut()?;
                let n = u.nodes.first()?;
                let (i, l, mut hh) = node_parts(n);
                hh[0] ^= 1;
                u.nodes[0] = mk_node(i, l, &hh);
            }
        }
        1 => {
            if let Some(u) = q.upgrade.as_mut() {
                u.signature[10] ^= 0x20;
            } else {
                q.fork += 1;
            }
        }
        _ => q.fork += 1,
    }
    Some(q)
}

fn expected(op: &Op, before: &SysModel, out: &Out<OpRes>) -> (Vec<Ev>, bool) {
    // returns (events, drops_allowed)
    match op {
        Op::Append(_) | Op::Batch(_) | Op::BatchN(_) => {
            let k = match op {
                Op::Append(_) => 1,
                Op::Batch(v) => v.len() as u64,
                Op::BatchN(n) => *n as u64,
                _ => 0,
            };
            if before.w.writable && k > 0 {
                (vec![Ev::Upgrade, Ev::Have(before.w.len(), k, false)], false)
            } else {
                (vec![], false)
            }
        }
        Op::Clear(..) | Op::RClear(..) => (vec![], true),
        Op::Get(i) => {
            let held = *i < before.w.len() && before.w.blocks[*i as usize].is_some();
            (if held { vec![] } else { vec![Ev::Get(*i)] }, false)
        }
        Op::RGet(i) => {
            let held = before.r.as_ref().map(|r| r.held.contains(i)).unwrap_or(false);
            (if held { vec![] } else { vec![Ev::Get(*i)] }, false)
        }
        Op::RSync(req) => match out {
            Out::Ok(OpRes::Synced { proof: true, applied: Some(Ok(true)) }) => {
                let mut v = vec![];
                if req.up.is_some() {
                    v.push(Ev::Upgrade);
                }
                if let Some(i) = req.block {
                    v.push(Ev::Have(i, 1, false));
                }
                (v, false)
            }
            _ => (vec![], false),
        },
        _ => (vec![], false),
    }
}

struct Subs {
    /// (attached before op number, receiver)
    w: Vec<(usize, Receiver<Event>)>,
    r: Vec<(usize, Receiver<Event>)>,
}

fn run_leaf(ops: &[Op], prefix: &[Op], with_replica: bool, rep: &Report, stats: &Stats, outcomes: &FpSet, check_from: usize) {
    let mut full: Vec<Op> = prefix.to_vec();
    full.extend_from_slice(ops);
    crate::sup::set_case(&json!({"prop": "C13", "what": "events", "hist": full, "replica": with_replica}).to_string());
    let mut sys = Sys::new(with_replica, CacheCfg::Off);
    sys.altered = Some(alter_for_events);
    let mut subs = Subs { w: vec![], r: vec![] };
    let mut calls = 0u64;
    for (k, op) in full.iter().enumerate() {
        // attach a new subscriber before every call
        if let Some(c) = sys.wr.core.as_ref() {
            if subs.w.len() < 12 {
                subs.w.push((k, c.event_subscribe()));
            }
        }
        if let Some(c) = sys.rp.as_ref().and_then(|r| r.core.as_ref()) {
            if subs.r.len() < 12 {
                subs.r.push((k, c.event_subscribe()));
            }
        }
        let before = sys.m.clone();
        let out = sys.exec(op);
        calls += 1;
        let replica_op = op.is_replica_op();
        match op {
            Op::Reopen => {
                subs.w.clear();
                continue;
            }
            Op::RReopen => {
                subs.r.clear();
                continue;
            }
            _ => {}
        }
        if matches!(out, Out::Panic(_)) {
            return;
        }
        let (exp, drops_ok) = expected(op, &before, &out);
        // non-target core: drain and ignore (the writer serves create_proof through get)
        let (target, other) = if replica_op { (&mut subs.r, &mut subs.w) } else { (&mut subs.w, &mut subs.r) };
        for (_, rx) in other.iter_mut() {
            let _ = drain(rx);
        }
        let mut seen: Vec<Vec<Ev>> = vec![];
        for (_, rx) in target.iter_mut() {
            seen.push(drain(rx));
        }
        if k < check_from {
            continue;
        }
        outcomes.insert(crate::env::fp128(&[format!("{:?}{:?}", op.kind(), seen.first()).as_bytes()]));
        let mut viol: Option<(String, String)> = None;
        for (si, got) in seen.iter().enumerate() {
            let filtered: Vec<Ev> = if drops_ok {
                // a clear may announce drops inside the cleared range, nothing else
                let (s, e) = match op {
                    Op::Clear(s, e) | Op::RClear(s, e) => (*s, *e),
                    _ => (0, 0),
                };
                if got.iter().all(|ev| matches!(ev, Ev::Have(st, l, true) if *st >= s && st + l <= e)) {
                    vec![]
                } else {
                    got.clone()
                }
            } else {
                got.clone()
            };
            if filtered != exp {
                let clause = if exp.is_empty() { "unexpected-event" } else if filtered.is_empty() { "missing-event" } else { "wrong-event" };
                viol = Some((clause.into(), format!("subscriber attached before call #{} saw {:?}, expected {:?}", target[si].0, got, exp)));
                break;
            }
        }
        if viol.is_none() {
            for w in seen.windows(2) {
                if w[0] != w[1] {
                    viol = Some(("subscribers-disagree".into(), format!("two subscribers saw {:?} and {:?}", w[0], w[1])));
                }
            }
        }
        // duplicate delivery: the same accepted proof arrives a second time; if it is accepted
        // again it must announce the same events again, if it is refused or a no-op, nothing
        if viol.is_none() && matches!(op, Op::RSync(_)) && matches!(out, Out::Ok(OpRes::Synced { proof: true, applied: Some(Ok(true)) })) {
            if let (Some(p), Some(rp)) = (sys.last_proof.clone(), sys.rp.as_mut()) {
                if rp.core.is_some() {
                    let o2 = apply_proof(rp.c(), &p);
                    stats.add("duplicate_deliveries", 1);
                    let exp2 = match &o2 {
                        Out::Ok(true) => exp.clone(),
                        _ => vec![],
                    };
                    for (_, rx) in subs.w.iter_mut() {
                        let _ = drain(rx);
                    }
                    let seen2: Vec<Vec<Ev>> = subs.r.iter_mut().map(|(_, rx)| drain(rx)).collect();
                    if !matches!(o2, Out::Panic(_)) {
                        if let Some(bad) = seen2.iter().find(|g| **g != exp2) {
                            viol = Some(("duplicate-delivery".into(), format!("the same proof delivered a second time returned {}: subscribers saw {:?}, expected {:?}", o2.brief(), bad, exp2)));
                        }
                    }
                }
            }
        }
        if let Some((clause, detail)) = viol {
            let outk = match &out {
                Out::Ok(_) => "ok",
                Out::Err(_) => "err",
                Out::Panic(_) => "panic",
            };
            rep.violate(
                &clause,
                format!("op={} result={} core={}", op.kind(), outk, if replica_op { "replica" } else { "writer" }),
                format!("after [{}]: {} returned {}: {}", hist_brief(&full[..=k]), op.brief(), out.brief(), detail),
                json!({"prop": "C13", "what": "events", "hist": full[..=k].to_vec(), "replica": with_replica}),
                k + 1,
            );
            return;
        }
    }
    stats.add("calls", calls);
    stats.add("executions", 1);
}

/// Failed calls emit nothing: for the last call of `full`, every storage operation it issues is
/// failed once; whenever the call then reports an error, subscribers must have received nothing.
fn run_fault_leaf(full: &[Op], with_replica: bool, rep: &Report, stats: &Stats) {
    let Some(last) = full.last() else { return };
    if matches!(last, Op::Reopen | Op::RReopen) {
        return;
    }
    let replica_op = last.is_replica_op();
    let prep = |sys: &mut Sys| -> bool {
        for op in &full[..full.len() - 1] {
            let o = sys.exec(op);
            if matches!(o, Out::Panic(_)) {
                return false;
            }
        }
        true
    };
    // dry run to learn the range of storage operations of the last call
    let mut sys = Sys::new(with_replica, CacheCfg::Off);
    sys.altered = Some(alter_for_events);
    if !prep(&mut sys) {
        return;
    }
    let world = |sys: &Sys| if replica_op { sys.rp.as_ref().unwrap().w.clone() } else { sys.wr.w.clone() };
    let n0 = crate::env::nops(&world(&sys));
    let o = sys.exec_real(last);
    if matches!(o, Out::Panic(_)) {
        return;
    }
    let n1 = crate::env::nops(&world(&sys));
    drop(sys);
    for k in n0..n1 {
        crate::sup::set_case(&json!({"prop": "C13", "what": "events-fault", "hist": full, "replica": with_replica, "k": k - n0}).to_string());
        let mut sys = Sys::new(with_replica, CacheCfg::Off);
        sys.altered = Some(alter_for_events);
        if !prep(&mut sys) {
            return;
        }
        let core = if replica_op { sys.rp.as_ref().and_then(|r| r.core.as_ref()) } else { sys.wr.core.as_ref() };
        let Some(core) = core else { return };
        let mut rx = core.event_subscribe();
        let mut rx2 = core.event_subscribe();
        let w = world(&sys);
        w.lock().unwrap_or_else(|e| e.into_inner()).fail_at = Some(k);
        let out = sys.exec_real(last);
        w.lock().unwrap_or_else(|e| e.into_inner()).fail_at = None;
        stats.add("faulted_calls", 1);
        let failed = match &out {
            Out::Err(_) => true,
            Out::Ok(OpRes::Synced { applied: Some(Err(_)), .. }) => true,
            _ => false,
        };
        if !failed {
            continue;
        }
        let got = drain(&mut rx);
        let got2 = drain(&mut rx2);
        // a get of a missing block announces the Get before it touches storage; that call does not
        // fail by a storage error at all, so only state-change events are at stake here
        let bad: Vec<&Ev> = got.iter().filter(|e| !matches!(e, Ev::Get(_))).collect();
        if !bad.is_empty() || got != got2 {
            rep.violate(
                "event-on-failed-call",
                format!("op={} core={}", last.kind(), if replica_op { "replica" } else { "writer" }),
                format!("after [{}] with storage operation {} of the last call failing: the call returned {} but subscribers saw {:?}", hist_brief(full), k - n0, out.brief(), got),
                json!({"prop": "C13", "what": "events-fault", "hist": full, "replica": with_replica, "k": k - n0}),
                full.len() * 100 + (k - n0) as usize,
            );
            return;
        }
    }
}

fn writer_alpha(m: &SysModel) -> Vec<Op> {
    let len = m.w.len();
    let mut v = vec![
        Op::Append(Blk::P(1, 0)),
        Op::Batch(vec![Blk::P(2, 1), Blk::P(0, 1)]),
        Op::Batch(vec![]),
    ];
    if len > 0 {
        v.push(Op::Clear(0, 1));
        if len > 1 {
            v.push(Op::Clear(len - 1, len + 1));
        }
        v.push(Op::Get(0));
        v.push(Op::Get(len - 1));
    }
    v.push(Op::Get(len));
    v.push(Op::Get(len + 5));
    v.push(Op::Reopen);
    v
}

fn replica_alpha(m: &SysModel, growth: u64) -> Vec<Op> {
    // with growth: partial upgrades (to the writer's length and to one more than the replica has)
    // and writer appends, so that several upgrade-only proofs follow one another
    let mut v: Vec<Op> = replica_ops(m, growth > 0);
    if growth > 0 && m.w.len() < growth {
        v.push(Op::Append(Blk::P(1, 3)));
    }
    // refused proofs: three representative alterations of each honest sync
    let honest: Vec<Req> = v.iter().filter_map(|o| if let Op::RSync(r) = o { Some(r.clone()) } else { None }).collect();
    for r in honest.iter().take(2) {
        for a in 0..3u8 {
            v.push(Op::RBad(r.clone(), a));
        }
    }
    let rl = m.r.as_ref().map(|r| r.len).unwrap_or(0);
    v.push(Op::RGet(0));
    if rl > 1 {
        v.push(Op::RGet(rl - 1));
    }
    v.push(Op::RGet(rl + 1));
    v
}

fn explore(depth: usize, prefix: Vec<Op>, with_replica: bool, growth: u64, faults: bool, rep: &Report, stats: &Stats, outcomes: &FpSet) -> u64 {
    // enumerate leaves over the model, distribute over threads
    fn rec(ops: &mut Vec<Op>, m: &SysModel, depth: usize, replica: bool, growth: u64, out: &mut Vec<Vec<Op>>) {
        if ops.len() == depth {
            out.push(ops.clone());
            return;
        }
        let alpha = if replica { replica_alpha(m, growth) } else { writer_alpha(m) };
        for op in alpha {
            let mut m2 = m.clone();
            m2.apply(&op);
            ops.push(op);
            rec(ops, &m2, depth, replica, growth, out);
            ops.pop();
        }
    }
    let mut m = SysModel::new(with_replica);
    for op in &prefix {
        m.apply(op);
    }
    let mut leaves = vec![];
    rec(&mut vec![], &m, depth, with_replica, growth, &mut leaves);
    let idx = AtomicUsize::new(0);
    let (leaves_ref, prefix_ref) = (&leaves, &prefix);
    std::thread::scope(|s| {
        for _ in 0..nthreads().min(leaves_ref.len()).max(1) {
            s.spawn(|| loop {
                let i = idx.fetch_add(1, Ordering::Relaxed);
                if i >= leaves_ref.len() {
                    crate::sup::clear_case();
                    break;
                }
                if faults {
                    let mut full = prefix_ref.clone();
                    full.extend_from_slice(&leaves_ref[i]);
                    run_fault_leaf(&full, with_replica, rep, stats);
                } else {
                    run_leaf(&leaves_ref[i], prefix_ref, with_replica, rep, stats, outcomes, 0);
                }
            });
        }
    });
    leaves.len() as u64
}

pub fn run(tier: &str) -> i32 {
    let quick = tier == "quick";
    let rep = Report::new("C13", tier, "exploration");
    let stats = Stats::default();
    let outcomes = FpSet::default();
    let mut fams = vec![];
    let d = if quick { 5 } else { 6 };
    let n = explore(d, vec![], false, 0, false, &rep, &stats, &outcomes);
    fams.push(json!({"family": "writer: append/batch/empty batch/clear/get held+missing+out-of-range/reopen", "depth": d, "complete_histories": n}));
    for (name, wh, depth) in [
        ("replica of 3", super::c03::shape(3, 0, None), if quick { 4 } else { 5 }),
        ("replica of 5 (block 1 cleared)", super::c03::shape(5, 0, Some(1)), if quick { 4 } else { 5 }),
    ] {
        let n = explore(depth, wh.clone(), true, 0, false, &rep, &stats, &outcomes);
        fams.push(json!({"family": format!("{name}: honest syncs, refused (altered) proofs, gets, reopen"), "depth": depth, "complete_histories": n}));
    }
    {
        let depth = if quick { 4 } else { 5 };
        let n = explore(depth, super::c03::shape(2, 0, None), true, 5, false, &rep, &stats, &outcomes);
        fams.push(json!({"family": "replica of 2 with the writer growing to 5: partial and repeated upgrade-only proofs, block proofs, refused proofs, gets, reopen", "depth": depth, "complete_histories": n}));
    }
    // failed calls emit nothing: every storage operation of the last call of every history of
    // depth 1..df failing once
    let df = if quick { 3 } else { 4 };
    let mut nf = 0;
    for dd in 1..=df {
        nf += explore(dd, vec![], false, 0, true, &rep, &stats, &outcomes);
        nf += explore(dd.min(if quick { 2 } else { 3 }), super::c03::shape(3, 0, None), true, 0, true, &rep, &stats, &outcomes);
    }
    // five block downloads in a row: the fifth one flushes
    run_fault_leaf(
        &[super::c03::shape(5, 0, None), vec![Op::RSync(Req { block: Some(0), up: Some(5), ..Default::default() })], (1..5).map(|i| Op::RSync(Req { block: Some(i), ..Default::default() })).collect()].concat(),
        true,
        &rep,
        &stats,
    );
    fams.push(json!({"family": "failed calls: every storage operation of the last call failing once", "max_depth": df, "histories": nf, "faulted_calls": stats.get("faulted_calls")}));
    let coverage = json!({
        "evaluations": stats.get("calls") + stats.get("faulted_calls"),
        "distinct_nontrivial": outcomes.len(),
        "rule": "every op sequence up to the depth; a subscriber is attached before every call (all attach positions), every receiver drained after every call (< 32 undrained); per call each subscriber attached before it must have received exactly: non-empty append -> [DataUpgrade, Have{old length, batch size, drop=false}]; accepted proof -> DataUpgrade iff it carried an upgrade then Have{index,1,false} iff it carried a block; get of an index not held -> one Get{index}; held get, empty batch, refused/failed calls -> nothing; clear -> nothing or only drop=true Haves inside the range; all subscribers identical; every accepted honest proof is delivered a second time: accepted again -> the same events again, otherwise nothing. distinct_nontrivial = distinct (op kind, observed event list) outcomes",
        "executions": stats.get("executions"),
        "families": fams,
        "samples": ["append[1]; batch[2,0]; get(5); clear(0,1); get(0)", "writer 3 blocks | rsync{b0u3}; rbad#1{b1}; r.get(1); rsync{b1}"],
        "exhaustive": true,
    });
    rep.finish(coverage, vec!["create_proof is outside the alphabet (it reads through get on the serving core); events on the non-target core are ignored".into()])
}

pub fn replay(case: &Value, rep: &Report) {
    let hist = parse_hist(case);
    let with_replica = case["replica"].as_bool().unwrap_or(false);
    if case["what"].as_str() == Some("events-fault") {
        let stats = Stats::default();
        run_fault_leaf(&hist, with_replica, rep, &stats);
        return;
    }
    let stats = Stats::default();
    let outcomes = FpSet::default();
    run_leaf(&hist, &[], with_replica, rep, &stats, &outcomes, 0);
}
