//! C14 — behaviour and bytes are independent of storage backend and node cache.
//! Every history is executed under {RandomAccessMemory (behind a transparent forwarding adapter),
//! RandomAccessDisk on tmpfs, JournalStore} x {cache off, default cache, tiny cache}; the
//! observation transcripts of all nine runs and the four files of every run must be identical.

use super::common::*;
use super::faults::replica_ops;
use crate::drv::*;
use crate::env::{self, Image, Shared};
use crate::explore::SysModel;
use crate::report::{FpSet, Report, Stats};
use hypercore::{Hypercore, Storage, StorageTraits, Store};
use random_access_memory::RandomAccessMemory;
use random_access_storage::{RandomAccess, RandomAccessError};
use serde_json::{json, Value};
use std::path::PathBuf;
use std::sync::atomic::{AtomicUsize, Ordering};
use std::sync::{Arc, Mutex};

#[derive(Debug)]
struct Fwd(Arc<Mutex<RandomAccessMemory>>);

fn now<T>(f: impl std::future::Future<Output = T>) -> T {
    futures::FutureExt::now_or_never(f).expect("RandomAccessMemory futures complete immediately")
}

#[async_trait::async_trait]
impl RandomAccess for Fwd {
    async fn write(&mut self, o: u64, d: &[u8]) -> Result<(), RandomAccessError> {
        let m = self.0.clone();
        let mut g = m.lock().unwrap_or_else(|e| e.into_inner());
        now(g.write(o, d))
    }
    async fn read(&mut self, o: u64, l: u64) -> Result<Vec<u8>, RandomAccessError> {
        let m = self.0.clone();
        let mut g = m.lock().unwrap_or_else(|e| e.into_inner());
        now(g.read(o, l))
    }
    async fn del(&mut self, o: u64, l: u64) -> Result<(), RandomAccessError> {
        let m = self.0.clone();
        let mut g = m.lock().unwrap_or_else(|e| e.into_inner());
        now(g.del(o, l))
    }
    async fn truncate(&mut self, l: u64) -> Result<(), RandomAccessError> {
        let m = self.0.clone();
        let mut g = m.lock().unwrap_or_else(|e| e.into_inner());
        now(g.truncate(l))
    }
    async fn len(&mut self) -> Result<u64, RandomAccessError> {
        let m = self.0.clone();
        let mut g = m.lock().unwrap_or_else(|e| e.into_inner());
        now(g.len())
    }
    async fn is_empty(&mut self) -> Result<bool, RandomAccessError> {
        Ok(self.len().await? == 0)
    }
    async fn sync_all(&mut self) -> Result<(), RandomAccessError> {
        Ok(())
    }
}

#[derive(Clone, Copy, Debug, PartialEq, Eq)]
pub enum BackendKind {
    Journal,
    Memory,
    Disk,
}

pub enum Backend {
    Journal(Shared),
    Memory(Vec<Arc<Mutex<RandomAccessMemory>>>),
    Disk(PathBuf),
}

static DIR_SEQ: AtomicUsize = AtomicUsize::new(0);

fn scratch_root() -> PathBuf {
    let shm = PathBuf::from("/dev/shm");
    let base = if shm.is_dir() { shm } else { crate::report::verif_dir().join("run") };
    base.join(format!("hcverif-c14-{}", std::process::id()))
}

impl Backend {
    fn new(kind: BackendKind) -> Backend {
        match kind {
            BackendKind::Journal => Backend::Journal(env::new_world(env::empty_image())),
            BackendKind::Memory => Backend::Memory((0..4).map(|_| Arc::new(Mutex::new(RandomAccessMemory::default()))).collect()),
            BackendKind::Disk => {
                let d = scratch_root().join(format!("d{}", DIR_SEQ.fetch_add(1, Ordering::Relaxed)));
                let _ = std::fs::remove_dir_all(&d);
                std::fs::create_dir_all(&d).expect("scratch dir");
                Backend::Disk(d)
            }
        }
    }
    async fn storage(&self, overwrite: bool) -> Result<Storage, String> {
        match self {
            Backend::Journal(w) => Ok(env::storage_async_ow(w, overwrite).await),
            Backend::Memory(mems) => {
                let mems = mems.clone();
                Storage::open(
                    move |s: Store| {
                        let m = mems[env::store_id(&s)].clone();
                        Box::pin(async move { Ok(Box::new(Fwd(m)) as Box<dyn StorageTraits + Send>) })
                    },
                    overwrite,
                )
                .await
                .map_err(|e| format!("{e}"))
            }
            Backend::Disk(d) => Storage::new_disk(d, overwrite).await.map_err(|e| format!("{e}")),
        }
    }
    fn bytes(&self) -> Image {
        match self {
            Backend::Journal(w) => env::image_of(w),
            Backend::Memory(mems) => {
                let mut img = env::empty_image();
                for (i, m) in mems.iter().enumerate() {
                    let mut g = m.lock().unwrap_or_else(|e| e.into_inner());
                    let l = now(g.len()).unwrap();
                    img[i] = now(g.read(0, l)).unwrap();
                }
                img
            }
            Backend::Disk(d) => {
                let mut img = env::empty_image();
                for (i, n) in env::STORE_NAMES.iter().enumerate() {
                    img[i] = std::fs::read(d.join(n)).unwrap_or_default();
                }
                img
            }
        }
    }
}

impl Drop for Backend {
    fn drop(&mut self) {
        if let Backend::Disk(d) = self {
            let _ = std::fs::remove_dir_all(d);
        }
    }
}

async fn open_core(b: &Backend, create: Option<hypercore::PartialKeypair>, cache: CacheCfg) -> Result<Hypercore, String> {
    open_core_ow(b, create, cache, false).await
}

async fn open_core_ow(b: &Backend, create: Option<hypercore::PartialKeypair>, cache: CacheCfg, overwrite: bool) -> Result<Hypercore, String> {
    let st = b.storage(overwrite).await?;
    let bl = builder(st, cache);
    let bl = match create {
        Some(kp) => bl.key_pair(kp),
        None => bl.open(true),
    };
    bl.build().await.map_err(|e| format!("{e}"))
}

async fn observe_async(c: &mut Hypercore, upto: u64, t: &mut Vec<String>) {
    let i = c.info();
    t.push(format!("info {} {} {} {} {}", i.length, i.byte_length, i.contiguous_length, i.fork, i.writeable));
    for k in 0..=upto + 1 {
        let h = c.has(k);
        let g = c.get(k).await;
        t.push(format!("{k}: has {h} get {}", match g {
            Ok(Some(v)) => format!("Some({} bytes, fp {:x})", v.len(), env::fp128(&[&v]) as u32),
            Ok(None) => "None".into(),
            Err(e) => format!("Err({e})"),
        }));
    }
}

/// Execute `hist` on fresh backends of `kind`; returns (transcript, writer files, replica files).
/// `pre`: writer operations of an earlier core (another key pair) that lived in the same storage
/// before; the writer of `hist` is then created with `overwrite = true` over what it left behind.
/// `cold`: every proof is requested, the replica is closed and opened again, and only then the
/// proof is applied (an answer in flight across a restart).
async fn run_config(hist: &[Op], kind: BackendKind, cache: CacheCfg, pre: &[Op], cold: bool) -> (Vec<String>, Image, Option<Image>) {
    let with_replica = hist.iter().any(|o| o.is_replica_op());
    let wb = Backend::new(kind);
    let rb = if with_replica { Some(Backend::new(kind)) } else { None };
    let kp = key_pair(KEY_SEED);
    let mut t: Vec<String> = vec![];
    let mut m = SysModel::new(with_replica);
    if !pre.is_empty() {
        let mut old = match open_core(&wb, Some(key_pair(OTHER_KEY_SEED)), cache).await {
            Ok(c) => c,
            Err(e) => return (vec![format!("create earlier core: Err({e})")], env::empty_image(), None),
        };
        let mut n = 0u64;
        for op in pre {
            match op {
                Op::Append(b) => {
                    let _ = old.append(&b.bytes(n)).await;
                    n += 1;
                }
                Op::BatchN(k) => {
                    let d: Vec<Vec<u8>> = (0..*k as u64).map(|j| Blk::P(2, 5).bytes(n + j)).collect();
                    let _ = old.append_batch(&d).await;
                    n += *k as u64;
                }
                Op::Clear(s, e) => {
                    let _ = old.clear(*s, *e).await;
                }
                _ => {}
            }
        }
        drop(old);
    }
    let mut wc = match open_core_ow(&wb, Some(kp.clone()), cache, !pre.is_empty()).await {
        Ok(c) => Some(c),
        Err(e) => {
            t.push(format!("create writer: Err({e})"));
            None
        }
    };
    let mut rc = match &rb {
        Some(b) => open_core(b, Some(public_only(&kp)), cache).await.ok(),
        None => None,
    };
    for op in hist {
        let n = m.w.len();
        match op {
            Op::Reopen => {
                wc = None;
                match open_core(&wb, None, cache).await {
                    Ok(c) => {
                        wc = Some(c);
                        t.push("reopen: Ok".into());
                    }
                    Err(e) => t.push(format!("reopen: Err({e})")),
                }
            }
            Op::RReopen => {
                rc = None;
                match open_core(rb.as_ref().unwrap(), None, cache).await {
                    Ok(c) => {
                        rc = Some(c);
                        t.push("r.reopen: Ok".into());
                    }
                    Err(e) => t.push(format!("r.reopen: Err({e})")),
                }
            }
            Op::RSync(req) | Op::RBad(req, _) => {
                if wc.is_some() && rc.is_some() {
                    let (block, hash, seek, up) = {
                        let r = rc.as_mut().unwrap();
                        let rl = r.info().length;
                        let block = match req.block {
                            Some(i) => Some(hypercore::RequestBlock { index: i, nodes: r.missing_nodes(i).await.unwrap_or(0) }),
                            None => None,
                        };
                        let hash = match req.hash {
                            Some(j) => Some(hypercore::RequestBlock { index: j, nodes: r.missing_nodes_from_merkle_tree_index(j).await.unwrap_or(0) }),
                            None => None,
                        };
                        let seek = req.seek.map(|b| hypercore::RequestSeek { bytes: b });
                        let up = req.up.map(|to| hypercore::RequestUpgrade { start: rl, length: to - rl });
                        (block, hash, seek, up)
                    };
                    t.push(format!("request {:?} {:?} {:?} {:?}", block, hash, seek, up));
                    match wc.as_mut().unwrap().create_proof(block, hash, seek, up).await {
                        Ok(Some(p)) => {
                            t.push(format!("proof fp {:x}", env::fp128(&[format!("{p:?}").as_bytes()])));
                            // RBad: a corrupted version of the honest proof (must be refused
                            // identically under every configuration, and must not poison what follows)
                            let p = match op {
                                Op::RBad(_, a) => match super::c13::alter_for_events(&p, *a) {
                                    Some(q) => q,
                                    None => p,
                                },
                                _ => p,
                            };
                            if cold {
                                rc = None;
                                match open_core(rb.as_ref().unwrap(), None, cache).await {
                                    Ok(c) => rc = Some(c),
                                    Err(e) => t.push(format!("r.reopen before apply: Err({e})")),
                                }
                            }
                            if let Some(r) = rc.as_mut() {
                                let r2 = r.verify_and_apply_proof(&p).await;
                                t.push(format!("apply {:?}", r2.map_err(|e| format!("{e}"))));
                            }
                        }
                        Ok(None) => t.push("proof None".into()),
                        Err(e) => t.push(format!("proof Err({e})")),
                    }
                }
            }
            Op::RGet(i) => {
                if let Some(r) = rc.as_mut() {
                    t.push(format!("r.get({i}) {:?}", r.get(*i).await.map_err(|e| format!("{e}"))));
                }
            }
            Op::RClear(s, e) => {
                if let Some(r) = rc.as_mut() {
                    t.push(format!("r.clear({s},{e}) {:?}", r.clear(*s, *e).await.map_err(|e| format!("{e}"))));
                }
            }
            _ => {
                if let Some(c) = wc.as_mut() {
                    let r = match op {
                        Op::Append(b) => format!("{:?}", c.append(&b.bytes(n)).await.map_err(|e| format!("{e}"))),
                        Op::Batch(v) => {
                            let d: Vec<Vec<u8>> = v.iter().enumerate().map(|(k, b)| b.bytes(n + k as u64)).collect();
                            format!("{:?}", c.append_batch(&d).await.map_err(|e| format!("{e}")))
                        }
                        Op::BatchN(k) => {
                            let d: Vec<Vec<u8>> = (0..*k as u64).map(|j| Blk::P(1, 0).bytes(n + j)).collect();
                            format!("{:?}", c.append_batch(&d).await.map_err(|e| format!("{e}")))
                        }
                        Op::Clear(s, e) => format!("{:?}", c.clear(*s, *e).await.map_err(|e| format!("{e}"))),
                        Op::MakeReadOnly => format!("{:?}", c.make_read_only().await.map_err(|e| format!("{e}"))),
                        Op::Get(i) => format!("{:?}", c.get(*i).await.map_err(|e| format!("{e}"))),
                        _ => String::new(),
                    };
                    t.push(format!("{} -> {}", op.brief(), r));
                }
            }
        }
        m.apply(op);
        let upto = m.w.len();
        if op.is_replica_op() {
            if let Some(r) = rc.as_mut() {
                observe_async(r, upto, &mut t).await;
            }
        } else if let Some(c) = wc.as_mut() {
            observe_async(c, upto, &mut t).await;
        }
    }
    drop(wc);
    drop(rc);
    let wbytes = wb.bytes();
    let rbytes = rb.as_ref().map(|b| b.bytes());
    (t, wbytes, rbytes)
}

const KINDS: [BackendKind; 3] = [BackendKind::Journal, BackendKind::Memory, BackendKind::Disk];
const CACHES: [CacheCfg; 3] = [CacheCfg::Off, CacheCfg::Default, CacheCfg::Tiny];

#[derive(Clone)]
pub struct HistCase {
    pub hist: Vec<Op>,
    pub journal_only: bool,
    pub pre: Vec<Op>,
    pub cold: bool,
}

impl HistCase {
    fn plain(hist: Vec<Op>, journal_only: bool) -> HistCase {
        HistCase { hist, journal_only, pre: vec![], cold: false }
    }
    fn json(&self) -> Value {
        json!({"prop": "C14", "what": "configs", "hist": self.hist, "journal_only": self.journal_only, "pre": self.pre, "cold": self.cold})
    }
}

fn check_history(rt: &tokio::runtime::Runtime, hc: &HistCase, rep: &Report, stats: &Stats, distinct: &FpSet) {
    let hist = &hc.hist[..];
    crate::sup::set_case(&hc.json().to_string());
    let run = |kind: BackendKind, cache: CacheCfg, pre: &[Op]| -> (Vec<String>, Image, Option<Image>) {
        stats.add("config_runs", 1);
        match crate::drv::guard_sync(|| rt.block_on(run_config(hist, kind, cache, pre, hc.cold))) {
            Out::Ok(r) => r,
            Out::Panic(p) => (vec![format!("PANIC {p}")], env::empty_image(), None),
            Out::Err(e) => (vec![format!("ERR {e}")], env::empty_image(), None),
        }
    };
    let mut base: Option<(Vec<String>, Image, Option<Image>)> = None;
    if !hc.pre.is_empty() {
        // reference: the same history on fresh storage
        let b = run(BackendKind::Journal, CacheCfg::Off, &[]);
        distinct.insert(env::fp128(&[format!("{:?}", b.0).as_bytes()]));
        base = Some(b);
    }
    for kind in KINDS {
        if hc.journal_only && kind != BackendKind::Journal {
            continue;
        }
        for cache in CACHES {
            if !hc.pre.is_empty() && cache != CacheCfg::Off {
                continue;
            }
            let res = run(kind, cache, &hc.pre);
            if std::env::var("HCVERIF_DEBUG_C14").is_ok() {
                eprintln!("--- {kind:?} {cache:?}");
                for l in &res.0 {
                    eprintln!("  {l}");
                }
            }
            match &base {
                None => {
                    distinct.insert(env::fp128(&[format!("{:?}", res.0).as_bytes()]));
                    base = Some(res);
                }
                Some(b) => {
                    let refname = if hc.pre.is_empty() { "journal/cache-off" } else { "fresh storage" };
                    let mut viol: Option<(String, String)> = None;
                    if b.0 != res.0 {
                        let at = b.0.iter().zip(res.0.iter()).position(|(x, y)| x != y).unwrap_or(b.0.len().min(res.0.len()));
                        viol = Some((
                            "observations-differ".into(),
                            format!("transcript line {at}: {refname} says [{}], {kind:?}/{cache:?} says [{}]", b.0.get(at).cloned().unwrap_or_default(), res.0.get(at).cloned().unwrap_or_default()),
                        ));
                    } else {
                        for (which, x, y) in [("writer", Some(&b.1), Some(&res.1)), ("replica", b.2.as_ref(), res.2.as_ref())] {
                            let (Some(x), Some(y)) = (x, y) else { continue };
                            for f in 0..4 {
                                if x[f] != y[f] && viol.is_none() {
                                    let at = x[f].iter().zip(y[f].iter()).position(|(p, q)| p != q).unwrap_or(x[f].len().min(y[f].len()));
                                    viol = Some((
                                        "bytes-differ".into(),
                                        format!("{which} {} file: {refname} has {} bytes, {kind:?}/{cache:?} has {} bytes, first difference at byte {at}", env::STORE_NAMES[f], x[f].len(), y[f].len()),
                                    ));
                                }
                            }
                        }
                    }
                    if let Some((clause, detail)) = viol {
                        rep.violate(
                            &clause,
                            format!("backend={kind:?} cache={cache:?} last={}{}{}", hist.last().map(|o| o.kind()).unwrap_or("-"), if hc.pre.is_empty() { "" } else { " overwrite" }, if hc.cold { " cold-apply" } else { "" }),
                            format!("history [{}]{}{}: {}", hist_brief(hist),
                                if hc.pre.is_empty() { String::new() } else { format!(" created with overwrite over the storage of an earlier core [{}]", hist_brief(&hc.pre)) },
                                if hc.cold { " (replica reopened between request and apply)" } else { "" }, detail),
                            hc.json(),
                            hist.len() + hc.pre.len(),
                        );
                    }
                }
            }
        }
    }
    stats.add("histories", 1);
}

fn enumerate(depth: usize, prefix: &[Op], replica: bool, alpha: &dyn Fn(&SysModel) -> Vec<Op>) -> Vec<Vec<Op>> {
    fn rec(ops: &mut Vec<Op>, m: &SysModel, depth: usize, alpha: &dyn Fn(&SysModel) -> Vec<Op>, out: &mut Vec<Vec<Op>>) {
        if ops.len() == depth {
            out.push(ops.clone());
            return;
        }
        for op in alpha(m) {
            let mut m2 = m.clone();
            m2.apply(&op);
            ops.push(op);
            rec(ops, &m2, depth, alpha, out);
            ops.pop();
        }
    }
    let mut m = SysModel::new(replica);
    for op in prefix {
        m.apply(op);
    }
    let mut out = vec![];
    rec(&mut vec![], &m, depth, alpha, &mut out);
    out.into_iter()
        .map(|h| {
            let mut f = prefix.to_vec();
            f.extend(h);
            f
        })
        .collect()
}

pub fn run(tier: &str) -> i32 {
    let quick = tier == "quick";
    let variant = std::env::var("HCVERIF_VARIANT").unwrap_or_default();
    let rep = Report::new("C14", tier, "exploration");
    let stats = Stats::default();
    let distinct = FpSet::default();
    let mut hists: Vec<HistCase> = vec![];
    let mut fams = vec![];
    // writer histories: small blocks, all clears
    let a1 = |m: &SysModel| -> Vec<Op> {
        let mut a = Alpha::medium();
        a.make_read_only = false;
        a.ops(m)
    };
    let h1 = enumerate(if quick { 3 } else { 4 }, &[], false, &a1);
    fams.push(json!({"family": "medium alphabet", "histories": h1.len()}));
    hists.extend(h1.into_iter().map(|h| HistCase::plain(h, false)));
    // big-block variants so that holes span whole filesystem blocks
    let a2 = |m: &SysModel| -> Vec<Op> {
        let len = m.w.len();
        let mut v = vec![Op::Append(Blk::P(5000, 2)), Op::Append(Blk::P(3, 2)), Op::Batch(vec![Blk::P(20000, 2), Blk::P(1, 2)])];
        for s in 0..len {
            v.push(Op::Clear(s, s + 1));
            if s + 2 <= len + 1 {
                v.push(Op::Clear(s, s + 2));
            }
        }
        v.push(Op::Reopen);
        v
    };
    let h2 = enumerate(if quick { 3 } else { 4 }, &[], false, &a2);
    fams.push(json!({"family": "big blocks (3 / 5000 / 20000 bytes) + clears + reopen", "histories": h2.len()}));
    hists.extend(h2.into_iter().map(|h| HistCase::plain(h, false)));
    // a deeper reduced family and read-only switch
    let a3 = |m: &SysModel| -> Vec<Op> {
        let mut a = Alpha::small();
        a.make_read_only = true;
        a.ops(m)
    };
    let h3 = enumerate(if quick { 4 } else { 5 }, &[], false, &a3);
    fams.push(json!({"family": "small alphabet + make_read_only", "histories": h3.len()}));
    hists.extend(h3.into_iter().map(|h| HistCase::plain(h, false)));
    // cache coherence only (instrumented backend x 3 cache settings): deeper, so that trees grow
    // beyond the tiny cache and nodes are evicted between the rounds of multi-round reads
    let a4 = |m: &SysModel| -> Vec<Op> { Alpha::small().ops(m) };
    let d4 = if quick { 7 } else { 9 };
    let h4 = enumerate(d4, &[], false, &a4);
    fams.push(json!({"family": "small alphabet, journal backend only x 3 cache settings", "depth": d4, "histories": h4.len()}));
    hists.extend(h4.into_iter().map(|h| HistCase::plain(h, true)));
    let a5 = |m: &SysModel| -> Vec<Op> {
        let len = m.w.len();
        let mut v = vec![Op::Batch((0..5).map(|_| Blk::P(2, 6)).collect()), Op::Append(Blk::P(1, 6))];
        if len > 2 {
            v.push(Op::Clear(len - 2, len));
            v.push(Op::Clear(len / 2, len / 2 + 1));
            v.push(Op::Get(len / 3));
        }
        v.push(Op::Reopen);
        v
    };
    let d5 = if quick { 5 } else { 7 };
    let h5 = enumerate(d5, &[], false, &a5);
    fams.push(json!({"family": "batches of 5 / clears in the middle and at the end / reopen, journal backend only x 3 cache settings", "depth": d5, "histories": h5.len()}));
    hists.extend(h5.into_iter().map(|h| HistCase::plain(h, true)));
    // replica histories
    let ar = |m: &SysModel| -> Vec<Op> { replica_ops(m, false) };
    for (n, d) in if quick { vec![(3u64, 3usize), (5, 2)] } else { vec![(3, 4), (5, 3), (6, 3)] } {
        let hr = enumerate(d, &super::c03::shape(n, 0, None), true, &ar);
        fams.push(json!({"family": format!("replica of {n}: well-formed request orders"), "depth": d, "histories": hr.len()}));
        hists.extend(hr.clone().into_iter().map(|h| HistCase::plain(h, false)));
    }
    // replica histories with writer growth, hash requests, replica clears and reopen (cache
    // coherence on the replica side: nodes looked up while missing and received later)
    let ag = |m: &SysModel| -> Vec<Op> {
        let mut v = super::faults::replica_ops_growth(m, 5);
        // a corrupted copy of each block-only / hash-only request's proof
        let bad: Vec<Op> = v
            .iter()
            .filter_map(|o| match o {
                Op::RSync(r) if r.up.is_none() => Some(Op::RBad(r.clone(), 0)),
                _ => None,
            })
            .take(2)
            .collect();
        v.extend(bad);
        v
    };
    let dg = if quick { 5 } else { 6 };
    let hg = enumerate(dg, &super::c03::shape(2, 0, None), true, &ag);
    fams.push(json!({"family": "replica of 2 growing to 5 (journal backend only x 3 cache settings)", "depth": dg, "histories": hg.len()}));
    hists.extend(hg.into_iter().map(|h| HistCase::plain(h, true)));
    // answers in flight across a restart: the replica is reopened between request and apply
    // (the node cache is empty when the proof arrives)
    let agc = |m: &SysModel| -> Vec<Op> {
        let mut v = super::faults::replica_ops_growth(m, 5);
        let bad: Vec<Op> = v
            .iter()
            .filter_map(|o| match o {
                Op::RSync(r) if r.up.is_none() => Some(Op::RBad(r.clone(), 0)),
                _ => None,
            })
            .collect();
        v.extend(bad);
        v
    };
    let dc = if quick { 4 } else { 5 };
    let hcold = enumerate(dc, &super::c03::shape(2, 0, None), true, &agc);
    fams.push(json!({"family": "replica of 2 growing to 5, replica reopened between every request and its apply (journal backend only x 3 cache settings)", "depth": dc, "histories": hcold.len()}));
    hists.extend(hcold.into_iter().map(|h| HistCase { hist: h, journal_only: true, pre: vec![], cold: true }));
    let hcold5 = enumerate(if quick { 2 } else { 3 }, &[super::c03::shape(5, 0, None), vec![Op::RSync(crate::drv::Req { block: Some(0), up: Some(5), ..Default::default() })]].concat(), true, &agc);
    fams.push(json!({"family": "replica of 5 holding block 0, cold applies", "histories": hcold5.len()}));
    hists.extend(hcold5.into_iter().map(|h| HistCase { hist: h, journal_only: true, pre: vec![], cold: true }));
    // creation with overwrite over storage that held an earlier core (another key pair) must
    // behave and end byte-identical to creation on fresh storage, on all three backends
    let pres: Vec<Vec<Op>> = vec![
        vec![Op::Append(Blk::P(3, 5))],
        vec![Op::BatchN(5), Op::Clear(1, 3)],
        vec![Op::BatchN(40), Op::Append(Blk::P(3, 5)), Op::Append(Blk::P(3, 5))],
    ];
    let how = enumerate(if quick { 2 } else { 3 }, &[], false, &a1);
    let mut now_ = 0;
    for pre in &pres {
        for h in &how {
            hists.push(HistCase { hist: h.clone(), journal_only: false, pre: pre.clone(), cold: false });
            now_ += 1;
        }
    }
    fams.push(json!({"family": "medium alphabet on a core created with overwrite over the storage of an earlier core (3 earlier cores x 3 backends, compared with fresh storage)", "histories": now_}));
    if !quick {
        hists.push(HistCase::plain(vec![Op::BatchN(9000), Op::Clear(100, 8200), Op::Reopen, Op::Append(Blk::P(70000, 1)), Op::Clear(9000, 9001), Op::Reopen], false));
    }
    let idx = AtomicUsize::new(0);
    let hists_ref = &hists;
    std::thread::scope(|s| {
        for _ in 0..nthreads().min(hists_ref.len()).max(1) {
            s.spawn(|| {
                let rt = tokio::runtime::Builder::new_current_thread().build().expect("tokio runtime");
                loop {
                    let i = idx.fetch_add(1, Ordering::Relaxed);
                    if i >= hists_ref.len() {
                        crate::sup::clear_case();
                        break;
                    }
                    check_history(&rt, &hists_ref[i], &rep, &stats, &distinct);
                }
            });
        }
    });
    let _ = std::fs::remove_dir_all(scratch_root());
    let coverage = json!({
        "evaluations": stats.get("config_runs"),
        "distinct_nontrivial": distinct.len(),
        "rule": "every history of the listed families is executed under 3 backends (JournalStore, RandomAccessMemory, RandomAccessDisk on tmpfs) x 3 cache settings (off, default, max_capacity 200); the transcript of every call result plus info/has/get after every call, and the full contents of the four files (read back, so punched holes read as zeros) must be identical in all nine runs; cold-apply families reopen the replica between each request and the apply of its answer; overwrite families create the core with overwrite = true over storage left by an earlier core with another key and compare with fresh storage; distinct_nontrivial = distinct transcripts",
        "histories": stats.get("histories"),
        "families": fams,
        "build_variant": if variant.is_empty() { "default features (sparse)".to_string() } else { variant.clone() },
        "samples": hists.iter().step_by(hists.len() / 4 + 1).map(|h| hist_brief(&h.hist)).collect::<Vec<_>>(),
        "exhaustive": true,
    });
    rep.finish(coverage, vec!["disk files live on tmpfs (/dev/shm) or under /verif/run".into()])
}

pub fn replay(case: &Value, rep: &Report) {
    let hist = parse_hist(case);
    let stats = Stats::default();
    let d = FpSet::default();
    let rt = tokio::runtime::Builder::new_current_thread().build().expect("tokio runtime");
    let hc = HistCase {
        hist,
        journal_only: case["journal_only"].as_bool().unwrap_or(false),
        pre: serde_json::from_value(case["pre"].clone()).unwrap_or_default(),
        cold: case["cold"].as_bool().unwrap_or(false),
    };
    check_history(&rt, &hc, rep, &stats, &d);
    let _ = std::fs::remove_dir_all(scratch_root());
}
