//! C15 — a shared core is linearizable under concurrent tasks.
//! Engine E5: a deterministic single-threaded executor explores every cooperative schedule of
//! 2–4 tasks calling one `SharedCore` (scheduling points: task start, every storage operation,
//! every contended lock, a yield between consecutive calls). Oracle: the observed results must
//! equal those of some sequential order of the calls, consistent with real-time order, obtained
//! by running that order on a plain unshared `Hypercore`; final states must match too.

use super::common::*;
use crate::drv::*;
use crate::env;
use crate::report::{FpSet, Report, Stats};
use hypercore::replication::{CoreInfo, CoreMethods, ReplicationMethods, SharedCore};
use hypercore::{Hypercore, Proof, RequestBlock, RequestUpgrade};
use serde::{Deserialize, Serialize};
use serde_json::{json, Value};
use std::cell::Cell;
use std::collections::BTreeMap;
use std::future::Future;
use std::pin::Pin;
use std::sync::atomic::{AtomicBool, AtomicUsize, Ordering};
use std::sync::{Arc, Mutex};
use std::task::{Context, Poll, Wake, Waker};

// ---- virtual clock -------------------------------------------------------------------------
// async_lock::Mutex switches a waiter to its fair "starved" protocol when it has waited more
// than 500 microseconds of wall-clock time. The harness owns that source of nondeterminism by
// overriding clock_gettime for the threads that explore schedules: frozen (never starved) or
// +1 ms per call (always starved). Other threads get the real clock through the raw syscall.

thread_local! {
    static VMODE: Cell<u8> = const { Cell::new(0) };
    static VNOW: Cell<i64> = const { Cell::new(1_000_000_000) };
}

#[no_mangle]
pub unsafe extern "C" fn clock_gettime(clk: libc::clockid_t, ts: *mut libc::timespec) -> libc::c_int {
    let mode = VMODE.try_with(|m| m.get()).unwrap_or(0);
    if mode == 0 {
        return libc::syscall(libc::SYS_clock_gettime, clk, ts) as libc::c_int;
    }
    let step = if mode == 2 { 1_000_000 } else { 0 };
    let v = VNOW.with(|n| {
        let v = n.get() + step;
        n.set(v);
        v
    });
    (*ts).tv_sec = v / 1_000_000_000;
    (*ts).tv_nsec = v % 1_000_000_000;
    0
}

fn set_clock(mode: u8) {
    VMODE.with(|m| m.set(mode));
}

/// Does the override take effect? (std's Instant must follow the virtual clock)
fn clock_selftest() -> bool {
    set_clock(2);
    let a = std::time::Instant::now();
    let b = std::time::Instant::now();
    let stepped = b.duration_since(a) >= std::time::Duration::from_micros(900);
    set_clock(1);
    let c = std::time::Instant::now();
    let d = std::time::Instant::now();
    let frozen = d.duration_since(c) == std::time::Duration::ZERO;
    set_clock(0);
    stepped && frozen
}

// ---- calls ---------------------------------------------------------------------------------

pub const BIG_BATCH: usize = 70;
fn big_batch(tag: u8) -> Vec<Vec<u8>> {
    (0..BIG_BATCH).map(|i| vec![tag, i as u8]).collect()
}

#[derive(Debug, Clone, PartialEq, Eq, Serialize, Deserialize)]
pub enum Call {
    Append(u8),
    Batch(u8),
    /// append_batch of BIG_BATCH two-byte blocks (beyond any small per-call slice size)
    BigBatch(u8),
    Get(u64),
    Has(u64),
    Info,
    MissingNodes(u64),
    /// create_proof(block i + upgrade 0..len-at-config-time)
    Prove(u64),
    /// clear through the public mutex
    Clear(u64, u64),
    /// replica: apply pre-built proof k
    Apply(usize),
}

impl Call {
    fn brief(&self) -> String {
        match self {
            Call::Append(t) => format!("append#{t}"),
            Call::Batch(t) => format!("batch#{t}"),
            Call::BigBatch(t) => format!("batch{BIG_BATCH}#{t}"),
            Call::Get(i) => format!("get({i})"),
            Call::Has(i) => format!("has({i})"),
            Call::Info => "info".into(),
            Call::MissingNodes(i) => format!("missing_nodes({i})"),
            Call::Prove(i) => format!("create_proof(b{i})"),
            Call::Clear(s, e) => format!("clear({s},{e})"),
            Call::Apply(k) => format!("apply(P{k})"),
        }
    }
}

#[derive(Debug, Clone, Serialize, Deserialize)]
pub struct Config {
    /// replica configuration (tasks apply pre-built proofs) or writer configuration
    pub replica: bool,
    pub tasks: Vec<Vec<Call>>,
}

const INIT_BLOCKS: u64 = 2;

fn init_writer_on(w: &env::Shared) -> Hypercore {
    let mut c = match create_on(w, key_pair(KEY_SEED), CacheCfg::Off) {
        Out::Ok(c) => c,
        o => panic!("harness: create failed {}", o.map(|_| ()).brief()),
    };
    for i in 0..INIT_BLOCKS {
        let d = Blk::P(2, 8).bytes(i);
        if !guard(c.append(&d)).is_ok() {
            panic!("harness: init append failed");
        }
    }
    c
}

/// Replica configurations start from a replica that is already half synced (length 2 of a
/// 4-block writer, block 0 held), so that reads touch storage (and yield) and the pre-built
/// proofs are conflicting upgrades from the same base.
fn source_writer(n: u64) -> Hypercore {
    let w = env::new_world(env::empty_image());
    let mut c = match create_on(&w, key_pair(KEY_SEED), CacheCfg::Off) {
        Out::Ok(c) => c,
        _ => panic!("harness: create failed"),
    };
    for i in 0..n {
        let _ = guard(c.append(&Blk::P(1 + (i % 3) as u32, 8).bytes(i)));
    }
    c
}

fn base_proof() -> Proof {
    let mut w = source_writer(2);
    match guard(w.create_proof(Some(RequestBlock { index: 0, nodes: 0 }), None, None, Some(RequestUpgrade { start: 0, length: 2 }))) {
        Out::Ok(Some(p)) => p,
        o => panic!("harness: cannot build base proof: {}", o.map(|_| ()).brief()),
    }
}

fn init_replica_on(w: &env::Shared) -> Hypercore {
    let mut c = match create_on(w, public_only(&key_pair(KEY_SEED)), CacheCfg::Off) {
        Out::Ok(c) => c,
        _ => panic!("harness: replica create failed"),
    };
    match guard(c.verify_and_apply_proof(&base_proof())) {
        Out::Ok(true) => {}
        o => panic!("harness: base proof not accepted: {}", o.brief()),
    }
    c
}

/// Pre-built honest proofs (from the 4-block writer, for the half-synced replica) that conflict.
fn replica_proofs() -> Vec<Proof> {
    let mut w = source_writer(4);
    let hw = env::new_world(env::empty_image());
    let mut helper = init_replica_on(&hw);
    let up = Some(RequestUpgrade { start: 2, length: 2 });
    let mut v = vec![];
    let mut p = |w: &mut Hypercore, helper: &mut Hypercore, b: Option<u64>, u: Option<RequestUpgrade>| -> Proof {
        let rb = b.map(|i| RequestBlock { index: i, nodes: match guard(helper.missing_nodes(i)) { Out::Ok(n) => n, _ => 0 } });
        match guard(w.create_proof(rb, None, None, u)) {
            Out::Ok(Some(p)) => p,
            o => panic!("harness: cannot build replica proof: {}", o.map(|_| ()).brief()),
        }
    };
    v.push(p(&mut w, &mut helper, None, up.clone())); // P0 upgrade 2..4 only
    v.push(p(&mut w, &mut helper, Some(2), up.clone())); // P1 block 2 + upgrade
    v.push(p(&mut w, &mut helper, Some(3), up.clone())); // P2 block 3 + upgrade
    v.push(p(&mut w, &mut helper, Some(1), None)); // P3 block 1, no upgrade (valid before and after)
    // P4: block 2 for a replica that has already upgraded
    match guard(helper.verify_and_apply_proof(&v[0])) {
        Out::Ok(true) => {}
        o => panic!("harness: helper upgrade failed: {}", o.brief()),
    }
    v.push(p(&mut w, &mut helper, Some(2), None));
    v
}

fn fp(s: &str) -> String {
    format!("{:x}", env::fp128(&[s.as_bytes()]) as u64)
}

/// run one call against a plain Hypercore (sequential reference)
fn run_plain(c: &mut Hypercore, call: &Call, proofs: &[Proof]) -> String {
    match call {
        Call::Append(t) => match guard(c.append(&[*t, 0xA5])) {
            Out::Ok(o) => format!("ok {} {}", o.length, o.byte_length),
            o => o.map(|_| ()).brief(),
        },
        Call::Batch(t) => match guard(c.append_batch(&[vec![*t, 1u8], vec![*t, 2u8, 3u8], vec![*t, 4u8]])) {
            Out::Ok(o) => format!("ok {} {}", o.length, o.byte_length),
            o => o.map(|_| ()).brief(),
        },
        Call::BigBatch(t) => match guard(c.append_batch(&big_batch(*t))) {
            Out::Ok(o) => format!("ok {} {}", o.length, o.byte_length),
            o => o.map(|_| ()).brief(),
        },
        Call::Get(i) => format!("{:?}", guard(c.get(*i))),
        Call::Has(i) => format!("{}", c.has(*i)),
        Call::Info => {
            let i = c.info();
            format!("{} {} {}", i.length, i.byte_length, i.contiguous_length)
        }
        Call::MissingNodes(i) => format!("{:?}", guard(c.missing_nodes(*i))),
        Call::Prove(i) => {
            match guard(c.create_proof(Some(RequestBlock { index: *i, nodes: 0 }), None, None, Some(RequestUpgrade { start: 0, length: INIT_BLOCKS }))) {
                Out::Ok(p) => format!("proof {}", fp(&format!("{p:?}"))),
                o => o.map(|_| ()).brief(),
            }
        }
        Call::Clear(s, e) => format!("{:?}", guard(c.clear(*s, *e))),
        Call::Apply(k) => match guard(c.verify_and_apply_proof(&proofs[*k])) {
            Out::Ok(b) => format!("ok {b}"),
            Out::Err(_) => "err".into(),
            Out::Panic(p) => format!("PANIC {p}"),
        },
    }
}

async fn run_shared(sc: &SharedCore, call: &Call, proofs: &[Proof]) -> String {
    match call {
        Call::Append(t) => match sc.append(&[*t, 0xA5]).await {
            Ok(o) => format!("ok {} {}", o.length, o.byte_length),
            Err(e) => format!("Err({e})"),
        },
        Call::Batch(t) => match sc.append_batch(vec![vec![*t, 1u8], vec![*t, 2u8, 3u8], vec![*t, 4u8]]).await {
            Ok(o) => format!("ok {} {}", o.length, o.byte_length),
            Err(e) => format!("Err({e})"),
        },
        Call::BigBatch(t) => match sc.append_batch(big_batch(*t)).await {
            Ok(o) => format!("ok {} {}", o.length, o.byte_length),
            Err(e) => format!("Err({e})"),
        },
        Call::Get(i) => match sc.get(*i).await {
            Ok(v) => format!("{:?}", Out::<Option<Vec<u8>>>::Ok(v)),
            Err(e) => format!("Err({e})"),
        },
        Call::Has(i) => format!("{}", sc.has(*i).await),
        Call::Info => {
            let i = sc.info().await;
            format!("{} {} {}", i.length, i.byte_length, i.contiguous_length)
        }
        Call::MissingNodes(i) => match sc.missing_nodes(*i).await {
            Ok(v) => format!("{:?}", Out::<u64>::Ok(v)),
            Err(e) => format!("Err({e})"),
        },
        Call::Prove(i) => {
            match sc.create_proof(Some(RequestBlock { index: *i, nodes: 0 }), None, None, Some(RequestUpgrade { start: 0, length: INIT_BLOCKS })).await {
                Ok(p) => format!("proof {}", fp(&format!("{p:?}"))),
                Err(e) => format!("Err({e})"),
            }
        }
        Call::Clear(s, e) => {
            let mut g = sc.0.lock().await;
            match g.clear(*s, *e).await {
                Ok(()) => "Ok(())".to_string(),
                Err(_) => "Err".to_string(),
            }
        }
        Call::Apply(k) => match sc.verify_and_apply_proof(&proofs[*k]).await {
            Ok(b) => format!("ok {b}"),
            Err(_) => "err".into(),
        },
    }
}

fn final_state_plain(c: &mut Hypercore) -> String {
    let i = c.info();
    let mut s = format!("{} {} {}|", i.length, i.byte_length, i.contiguous_length);
    for k in 0..i.length + 1 {
        s += &format!("{:?};", guard(c.get(k)));
    }
    s
}

// ---- sequential reference: all orders consistent with program order --------------------------

#[derive(Debug, Clone)]
struct SeqOrder {
    /// order as (task, call index)
    order: Vec<(usize, usize)>,
    /// result per (task, call index)
    results: BTreeMap<(usize, usize), String>,
    final_state: String,
}

fn plain_result_norm(call: &Call, s: String) -> String {
    // make the plain and shared renderings comparable
    match call {
        Call::Clear(..) => {
            if s.starts_with("Ok") {
                "Ok(())".into()
            } else {
                "Err".into()
            }
        }
        Call::Get(_) | Call::MissingNodes(_) => {
            if s.starts_with("Err(") {
                "Err".into()
            } else {
                s
            }
        }
        Call::Append(_) | Call::Batch(_) | Call::BigBatch(_) | Call::Prove(_) => {
            if s.starts_with("Err(") {
                "Err".into()
            } else {
                s
            }
        }
        _ => s,
    }
}

fn sequential_orders(cfg: &Config, proofs: &[Proof]) -> Vec<SeqOrder> {
    let mut orders: Vec<Vec<(usize, usize)>> = vec![];
    fn rec(cfg: &Config, pos: &mut Vec<usize>, cur: &mut Vec<(usize, usize)>, out: &mut Vec<Vec<(usize, usize)>>) {
        let total: usize = cfg.tasks.iter().map(|t| t.len()).sum();
        if cur.len() == total {
            out.push(cur.clone());
            return;
        }
        for t in 0..cfg.tasks.len() {
            if pos[t] < cfg.tasks[t].len() {
                cur.push((t, pos[t]));
                pos[t] += 1;
                rec(cfg, pos, cur, out);
                pos[t] -= 1;
                cur.pop();
            }
        }
    }
    rec(cfg, &mut vec![0; cfg.tasks.len()], &mut vec![], &mut orders);
    orders
        .into_iter()
        .map(|order| {
            let w = env::new_world(env::empty_image());
            let mut c = if cfg.replica { init_replica_on(&w) } else { init_writer_on(&w) };
            let mut results = BTreeMap::new();
            for &(t, k) in &order {
                let call = &cfg.tasks[t][k];
                results.insert((t, k), plain_result_norm(call, run_plain(&mut c, call, proofs)));
            }
            let final_state = final_state_plain(&mut c);
            SeqOrder { order, results, final_state }
        })
        .collect()
}

// ---- the schedule explorer -------------------------------------------------------------------

struct Flag(AtomicBool);
impl Wake for Flag {
    fn wake(self: Arc<Self>) {
        self.0.store(true, Ordering::SeqCst)
    }
    fn wake_by_ref(self: &Arc<Self>) {
        self.0.store(true, Ordering::SeqCst)
    }
}

struct YieldOnce(bool);
impl Future for YieldOnce {
    type Output = ();
    fn poll(mut self: Pin<&mut Self>, cx: &mut Context<'_>) -> Poll<()> {
        if self.0 {
            Poll::Ready(())
        } else {
            self.0 = true;
            cx.waker().wake_by_ref();
            Poll::Pending
        }
    }
}

#[derive(Debug, Clone)]
struct CallRec {
    task: usize,
    k: usize,
    invoked: u64,
    returned: u64,
    result: String,
}

struct Exec {
    /// per point: was the previously running task still enabled (then choosing another is a preemption)
    running_enabled: Vec<bool>,
    points: Vec<usize>,
    choices: Vec<usize>,
    calls: Vec<CallRec>,
    deadlock: bool,
    final_state: String,
    interleaved_storage: bool,
    panicked: Option<String>,
}

fn run_schedule(cfg: &Config, proofs: &Arc<Vec<Proof>>, prefix: &[usize]) -> Exec {
    let w = env::new_world(env::empty_image());
    let core = if cfg.replica { init_replica_on(&w) } else { init_writer_on(&w) };
    {
        let mut g = w.lock().unwrap_or_else(|e| e.into_inner());
        g.yield_all = true;
        g.trace = Some(vec![]);
    }
    let sc = SharedCore::from_hypercore(core);
    let step = Arc::new(std::sync::atomic::AtomicU64::new(0));
    let recs: Arc<Mutex<Vec<CallRec>>> = Arc::new(Mutex::new(vec![]));
    let nt = cfg.tasks.len();
    let cur_call: Arc<Vec<AtomicUsize>> = Arc::new((0..nt).map(|_| AtomicUsize::new(0)).collect());
    let mut tasks: Vec<Option<Pin<Box<dyn Future<Output = ()>>>>> = vec![];
    for t in 0..nt {
        let sc = sc.clone();
        let calls = cfg.tasks[t].clone();
        let recs = recs.clone();
        let step = step.clone();
        let proofs = proofs.clone();
        let cur_call = cur_call.clone();
        tasks.push(Some(Box::pin(async move {
            for (k, call) in calls.iter().enumerate() {
                if k > 0 {
                    YieldOnce(false).await; // a task may be descheduled between its calls
                }
                let invoked = step.load(Ordering::SeqCst);
                cur_call[t].store(k, Ordering::SeqCst);
                let r = run_shared(&sc, call, &proofs).await;
                let returned = step.load(Ordering::SeqCst);
                recs.lock().unwrap_or_else(|e| e.into_inner()).push(CallRec { task: t, k, invoked, returned, result: plain_result_norm(call, r) });
            }
        })));
    }
    let flags: Vec<Arc<Flag>> = (0..nt).map(|_| Arc::new(Flag(AtomicBool::new(true)))).collect();
    let wakers: Vec<Waker> = flags.iter().map(|f| Waker::from(f.clone())).collect();
    let mut points = vec![];
    let mut running_enabled = vec![];
    let mut choices = vec![];
    let mut last: Option<usize> = None;
    let mut deadlock = false;
    let mut panicked = None;
    loop {
        let mut enabled: Vec<usize> = (0..nt).filter(|&i| tasks[i].is_some() && flags[i].0.load(Ordering::SeqCst)).collect();
        if enabled.is_empty() {
            deadlock = tasks.iter().any(|t| t.is_some());
            break;
        }
        let mut run_en = false;
        if let Some(l) = last {
            if let Some(p) = enabled.iter().position(|&x| x == l) {
                enabled.remove(p);
                enabled.insert(0, l);
                run_en = true;
            }
        }
        running_enabled.push(run_en);
        let c = if choices.len() < prefix.len() { prefix[choices.len()] } else { 0 };
        if c >= enabled.len() {
            eprintln!("harness: schedule replay diverged (choice {c} of {} enabled)", enabled.len());
            std::process::exit(2);
        }
        points.push(enabled.len());
        choices.push(c);
        let i = enabled[c];
        flags[i].0.store(false, Ordering::SeqCst);
        step.fetch_add(1, Ordering::SeqCst);
        // the tag attributes storage operations to the running task's current call
        w.lock().unwrap_or_else(|e| e.into_inner()).cur_tag = (i * 16 + cur_call[i].load(Ordering::SeqCst) + 1) as u32;
        let mut cx = Context::from_waker(&wakers[i]);
        let polled = crate::drv::guard_sync(|| tasks[i].as_mut().unwrap().as_mut().poll(&mut cx));
        match polled {
            Out::Ok(Poll::Ready(())) => tasks[i] = None,
            Out::Ok(Poll::Pending) => {}
            Out::Panic(p) => {
                panicked = Some(p);
                break;
            }
            Out::Err(e) => {
                panicked = Some(e);
                break;
            }
        }
        last = Some(i);
        if points.len() > 20_000 {
            deadlock = true; // livelock guard: an explicit horizon
            break;
        }
    }
    drop(tasks);
    // diagnostic only: did storage operations of two calls interleave?
    let interleaved = {
        let g = w.lock().unwrap_or_else(|e| e.into_inner());
        let tr = g.trace.as_ref().unwrap();
        let mut seen_done: Vec<u32> = vec![];
        let mut cur = 0u32;
        let mut inter = false;
        for (_, _, tag) in tr {
            if *tag != cur {
                if seen_done.contains(tag) {
                    inter = true;
                }
                if cur != 0 {
                    seen_done.push(cur);
                }
                cur = *tag;
            }
        }
        inter
    };
    w.lock().unwrap_or_else(|e| e.into_inner()).yield_all = false;
    let final_state = match Arc::try_unwrap(sc.0) {
        Ok(m) => {
            let mut c = m.into_inner();
            final_state_plain(&mut c)
        }
        Err(_) => "unavailable".into(),
    };
    let calls = recs.lock().unwrap_or_else(|e| e.into_inner()).clone();
    Exec { running_enabled, points, choices, calls, deadlock, final_state, interleaved_storage: interleaved, panicked }
}

fn check_exec(cfg: &Config, seq: &[SeqOrder], x: &Exec) -> Option<(String, String)> {
    if let Some(p) = &x.panicked {
        return Some(("panic".into(), p.clone()));
    }
    if x.deadlock {
        return Some(("deadlock".into(), "no task is enabled while some have not finished".into()));
    }
    let total: usize = cfg.tasks.iter().map(|t| t.len()).sum();
    if x.calls.len() != total {
        return Some(("lost-call".into(), format!("{} of {} calls returned", x.calls.len(), total)));
    }
    let by: BTreeMap<(usize, usize), &CallRec> = x.calls.iter().map(|c| ((c.task, c.k), c)).collect();
    'orders: for so in seq {
        // real-time order: if a returned before b was invoked then a must precede b
        for (ia, a) in so.order.iter().enumerate() {
            for b in &so.order[..ia] {
                // b precedes a in this order; violated if a returned before b was invoked
                if by[a].returned < by[b].invoked {
                    continue 'orders;
                }
            }
        }
        if so.order.iter().all(|c| so.results[c] == by[c].result) && so.final_state == x.final_state {
            return None;
        }
    }
    let obs: Vec<String> = x.calls.iter().map(|c| format!("T{}.{} {} -> {}", c.task, c.k, cfg.tasks[c.task][c.k].brief(), c.result)).collect();
    Some(("not-linearizable".into(), format!("observed [{}] final [{}] equals no sequential order", obs.join("; "), x.final_state.chars().take(80).collect::<String>())))
}

struct ConfigResult {
    executions: u64,
    max_points: usize,
    outcomes: usize,
    interleaved: u64,
}

fn explore_config(cfg: &Config, proofs: &Arc<Vec<Proof>>, clock: u8, bound: Option<u32>, rep: &Report, outcomes_global: &FpSet, cap: u64) -> ConfigResult {
    let seq = sequential_orders(cfg, proofs);
    set_clock(clock);
    let mut stack: Vec<Vec<usize>> = vec![vec![]];
    let mut execs = 0u64;
    let mut maxp = 0;
    let mut outs: std::collections::BTreeSet<String> = Default::default();
    let mut interleaved = 0u64;
    let mut first = true;
    while let Some(prefix) = stack.pop() {
        let x = run_schedule(cfg, proofs, &prefix);
        if first {
            // determinism self-test: the same schedule twice gives identical observations
            let y = run_schedule(cfg, proofs, &x.choices);
            let same = y.choices == x.choices && y.final_state == x.final_state && y.calls.iter().map(|c| &c.result).eq(x.calls.iter().map(|c| &c.result));
            if !same {
                set_clock(0);
                eprintln!("harness: replaying a schedule gave different observations (uncontrolled nondeterminism)");
                std::process::exit(2);
            }
            first = false;
        }
        execs += 1;
        if execs % 64 == 0 {
            crate::sup::tick();
        }
        maxp = maxp.max(x.points.len());
        if x.interleaved_storage {
            interleaved += 1;
        }
        let okey = format!("{:?}|{}", x.calls.iter().map(|c| (c.task, c.k, &c.result)).collect::<Vec<_>>(), x.final_state);
        outcomes_global.insert(env::fp128(&[okey.as_bytes(), format!("{cfg:?}").as_bytes()]));
        outs.insert(okey);
        if let Some((clause, detail)) = check_exec(cfg, &seq, &x) {
            set_clock(0);
            let kinds: std::collections::BTreeSet<String> = cfg.tasks.iter().flatten().map(|c| c.brief().split(['(', '#']).next().unwrap_or("").to_string()).collect();
            rep.violate(
                &clause,
                format!("calls={} tasks={} clock={}", kinds.into_iter().collect::<Vec<_>>().join("+"), cfg.tasks.len(), if clock == 1 { "frozen" } else { "stepping" }),
                format!("config {:?}, schedule {:?}: {}", cfg.tasks.iter().map(|t| t.iter().map(|c| c.brief()).collect::<Vec<_>>()).collect::<Vec<_>>(), x.choices, detail),
                json!({"prop": "C15", "what": "schedule", "config": cfg, "schedule": x.choices, "clock": clock}),
                x.choices.len() + 100 * cfg.tasks.iter().map(|t| t.len()).sum::<usize>(),
            );
            set_clock(clock);
            break;
        }
        // preemptions spent before each point along this execution
        let mut spent = 0u32;
        for i in 0..x.points.len() {
            if i >= prefix.len() {
                let cost = spent + if x.running_enabled[i] { 1 } else { 0 };
                if bound.map(|b| cost <= b).unwrap_or(true) {
                    for alt in 1..x.points[i] {
                        let mut p = x.choices[..i].to_vec();
                        p.push(alt);
                        stack.push(p);
                    }
                }
            }
            if x.choices[i] != 0 && x.running_enabled[i] {
                spent += 1;
            }
        }
        if execs >= cap {
            break;
        }
    }
    set_clock(0);
    ConfigResult { executions: execs, max_points: maxp, outcomes: outs.len(), interleaved }
}

fn product(menu: &[Call], ntasks: usize, ncalls: usize) -> Vec<Vec<Vec<Call>>> {
    // all assignments of ncalls calls from the menu to each of ntasks tasks; append tags are
    // made unique per (task, position) so that blocks are distinguishable
    let per_task: Vec<Vec<Call>> = {
        let mut v: Vec<Vec<Call>> = vec![vec![]];
        for _ in 0..ncalls {
            let mut n = vec![];
            for p in &v {
                for c in menu {
                    let mut q = p.clone();
                    q.push(c.clone());
                    n.push(q);
                }
            }
            v = n;
        }
        v
    };
    let mut out: Vec<Vec<Vec<Call>>> = vec![vec![]];
    for _ in 0..ntasks {
        let mut n = vec![];
        for p in &out {
            for t in &per_task {
                let mut q = p.clone();
                q.push(t.clone());
                n.push(q);
            }
        }
        out = n;
    }
    // canonical: tasks are symmetric, keep sorted task lists only; then tag appends
    out.retain(|cfg| cfg.windows(2).all(|w| format!("{:?}", w[0]) <= format!("{:?}", w[1])));
    for cfg in out.iter_mut() {
        for (t, task) in cfg.iter_mut().enumerate() {
            for (k, c) in task.iter_mut().enumerate() {
                let tag = (t * 8 + k + 1) as u8;
                match c {
                    Call::Append(x) | Call::Batch(x) | Call::BigBatch(x) => *x = tag,
                    _ => {}
                }
            }
        }
    }
    out
}

pub fn run(tier: &str) -> i32 {
    let quick = tier == "quick";
    let rep = Report::new("C15", tier, "model_checking");
    if !clock_selftest() {
        eprintln!("harness: the clock_gettime override does not take effect; cannot own the wall clock");
        return 2;
    }
    let stats = Stats::default();
    let outcomes = FpSet::default();
    let proofs = Arc::new(replica_proofs());
    let wmenu = vec![Call::Append(0), Call::Batch(0), Call::Get(0), Call::Get(INIT_BLOCKS), Call::Has(INIT_BLOCKS), Call::Info, Call::MissingNodes(0), Call::Prove(0)];
    let small = vec![Call::Append(0), Call::Info, Call::Get(INIT_BLOCKS)];
    let rmenu = vec![Call::Apply(0), Call::Apply(1), Call::Apply(2), Call::Apply(3), Call::Apply(4), Call::Get(0), Call::Info, Call::MissingNodes(1)];
    let mut configs: Vec<(String, Config, Option<u32>)> = vec![];
    let mut add = |name: &str, replica: bool, bound: Option<u32>, v: Vec<Vec<Vec<Call>>>| {
        for tasks in v {
            configs.push((format!("{name}{}", bound.map(|b| format!(" [preemption bound {b}]")).unwrap_or_default()), Config { replica, tasks }, bound));
        }
    };
    add("writer 2 tasks x 2 calls, whole menu", false, None, product(&wmenu, 2, 2));
    add("writer 3 tasks x 1 call, whole menu", false, None, product(&wmenu, 3, 1));
    add("writer 3 tasks x 2 calls, append/info/get", false, Some(if quick { 3 } else { 5 }), product(if quick { &small[..2] } else { &small }, 3, 2));
    add("replica 2 tasks x 2 calls, conflicting proofs + reads", true, None, product(&rmenu, 2, 2));
    add("replica 3 tasks x 1 call", true, None, product(&rmenu, 3, 1));
    // a task clearing through the public mutex next to appends and reads
    let cmenu = vec![Call::Clear(0, 1), Call::Append(0), Call::Get(0), Call::Info];
    add("writer 2 tasks x 2 calls with clear via the public mutex", false, None, product(&cmenu, 2, 2));
    // a batch far larger than the others next to appends and reads of blocks inside it
    let bmenu = vec![Call::BigBatch(0), Call::Append(0), Call::Info, Call::Get(INIT_BLOCKS + 40)];
    add("writer 2 tasks x 1 call with a 70-block batch", false, None, product(&bmenu, 2, 1));
    add("writer 2 tasks x 2 calls with a 70-block batch", false, Some(if quick { 2 } else { 3 }), product(&bmenu, 2, 2));
    if !quick {
        add("writer 2 tasks x 3 calls, append/batch/get/info", false, None, product(&[Call::Append(0), Call::Batch(0), Call::Get(INIT_BLOCKS), Call::Info], 2, 3));
        add("writer 4 tasks x 1 call", false, Some(6), product(&[Call::Append(0), Call::Batch(0), Call::Get(INIT_BLOCKS), Call::Info, Call::Prove(0)], 4, 1));
        add("replica 2 tasks x 3 calls", true, Some(4), product(&[Call::Apply(1), Call::Apply(2), Call::Apply(3), Call::Get(0), Call::Info], 2, 3));
        add("replica 4 tasks x 1 call", true, Some(6), product(&rmenu[..6], 4, 1));
    }
    let cap: u64 = if quick { 250_000 } else { 3_000_000 };
    let idx = AtomicUsize::new(0);
    let per_family: Mutex<BTreeMap<String, (u64, u64, usize, u64, u64)>> = Mutex::new(BTreeMap::new());
    let cfgs = &configs;
    std::thread::scope(|s| {
        for _ in 0..nthreads().min(cfgs.len()).max(1) {
            s.spawn(|| loop {
                let i = idx.fetch_add(1, Ordering::Relaxed);
                if i >= cfgs.len() {
                    crate::sup::clear_case();
                    break;
                }
                let (name, cfg, bound) = &cfgs[i];
                for clock in [1u8, 2u8] {
                    crate::sup::set_case(&json!({"prop": "C15", "what": "config", "config": cfg, "clock": clock, "bound": bound}).to_string());
                    let r = explore_config(cfg, &proofs, clock, *bound, &rep, &outcomes, cap);
                    if std::env::var("HCVERIF_C15_DEBUG").is_ok() && r.executions > 20_000 {
                        eprintln!("{} clock {} -> {} schedules, {} points: {:?}", name, clock, r.executions, r.max_points, cfg.tasks.iter().map(|t| t.iter().map(|c| c.brief()).collect::<Vec<_>>()).collect::<Vec<_>>());
                    }
                    let mut g = per_family.lock().unwrap_or_else(|e| e.into_inner());
                    let e = g.entry(format!("{name} / clock {}", if clock == 1 { "frozen" } else { "+1ms per call" })).or_insert((0, 0, 0, 0, 0));
                    e.0 += 1;
                    e.1 += r.executions;
                    e.2 = e.2.max(r.max_points);
                    e.3 += r.outcomes as u64;
                    e.4 += r.interleaved;
                    if r.executions >= cap {
                        stats.add("configs_capped", 1);
                    }
                    stats.add("executions", r.executions);
                    stats.add("transitions", r.executions * r.max_points as u64 / 2);
                }
            });
        }
    });
    let fam: Vec<Value> = per_family
        .lock()
        .unwrap()
        .iter()
        .map(|(k, v)| json!({"family": k, "configurations": v.0, "schedules": v.1, "max_scheduling_points": v.2, "distinct_outcomes_summed": v.3, "schedules_with_interleaved_storage_ops(diagnostic)": v.4}))
        .collect();
    let capped = stats.get("configs_capped");
    let coverage = json!({
        "states": outcomes.len().max(1),
        "transitions": stats.get("transitions").max(1),
        "traces_validated_against_impl": stats.get("executions"),
        "evaluations": stats.get("executions"),
        "distinct_nontrivial": outcomes.len(),
        "rule": "per configuration (tasks x calls over the menu, symmetric task lists merged) every cooperative schedule (families marked with a preemption bound: every schedule with at most that many preemptions, executions always run to completion) is executed on the real SharedCore over the yielding backend (DFS over choice prefixes by re-execution; canonical order: running task first); each execution's invoke/return history must equal some sequential order of the calls, consistent with real-time order, run on a plain Hypercore, including the final state; no deadlock; states = distinct (configuration, observed outcome) pairs; both virtual-clock regimes",
        "families": fam,
        "configurations": configs.len(),
        "configs_that_hit_the_schedule_cap": capped,
        "schedule_cap_per_configuration": cap,
        "samples": [
            {"config": "T0: append, info | T1: append, get(2)", "schedule": "choices at each point among enabled tasks, e.g. [0,1,0,0,1]"},
            {"config": "replica T0: apply(P1 block0+upgrade), info | T1: apply(P2 block1+upgrade), get(1)"}
        ],
        "exhaustive": capped == 0,
    });
    rep.finish(
        coverage,
        vec![
            "cooperative scheduling at await granularity is sufficient: the crate forbids unsafe code and shares state only through async_lock::Mutex, whose own atomics are trusted".into(),
            "wall clock owned through a clock_gettime override (frozen / +1ms per call)".into(),
        ],
    )
}

pub fn replay(case: &Value, rep: &Report) {
    let Ok(cfg) = serde_json::from_value::<Config>(case["config"].clone()) else { return };
    let proofs = Arc::new(replica_proofs());
    let clock = case["clock"].as_u64().unwrap_or(1) as u8;
    let outcomes = FpSet::default();
    if case["what"].as_str() == Some("schedule") {
        let sched: Vec<usize> = serde_json::from_value(case["schedule"].clone()).unwrap_or_default();
        let seq = sequential_orders(&cfg, &proofs);
        set_clock(clock);
        let x = run_schedule(&cfg, &proofs, &sched);
        set_clock(0);
        if let Some((clause, detail)) = check_exec(&cfg, &seq, &x) {
            rep.violate(&clause, "replay".into(), detail, case.clone(), 1);
        }
    } else {
        explore_config(&cfg, &proofs, clock, case["bound"].as_u64().map(|b| b as u32), rep, &outcomes, 400_000);
    }
}
