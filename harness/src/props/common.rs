//! Pieces shared by the per-property checks: alphabets, signature features, the every-state
//! observation oracle.

use crate::drv::*;
use crate::explore::*;
use crate::report::{FpSet, Report, Stats};
use serde_json::{json, Value};
use std::collections::BTreeMap;

pub fn nthreads() -> usize {
    std::env::var("HCVERIF_THREADS")
        .ok()
        .and_then(|s| s.parse().ok())
        .unwrap_or_else(|| std::thread::available_parallelism().map(|n| n.get()).unwrap_or(8))
        .min(crate::sup::NSLOTS)
}

#[derive(Clone, Copy, Debug, PartialEq)]
pub enum Clears {
    None,
    /// every 0 <= s < len, s < e <= len + 2
    All,
    /// s < len, e in {s+1, s+2}, e <= len + 1
    Narrow,
    /// only clear(0,1) and clear(len-1, len+1)
    Two,
}

#[derive(Clone, Debug)]
pub struct Alpha {
    pub sizes: Vec<u32>,
    pub batches: Vec<Vec<u32>>,
    pub clears: Clears,
    pub reopen: bool,
    pub make_read_only: bool,
    /// do not generate clears / further growth once the log is this long
    pub max_len: u64,
    /// also clears whose end lies far beyond the length (other 32-bit bitfield words)
    pub far_clear: bool,
}

impl Alpha {
    pub fn full() -> Alpha {
        Alpha {
            sizes: vec![1, 2, 0, 3],
            batches: vec![vec![], vec![1], vec![1, 2], vec![0, 3, 0]],
            clears: Clears::All,
            reopen: true,
            make_read_only: false,
            max_len: u64::MAX,
            far_clear: true,
        }
    }
    pub fn medium() -> Alpha {
        Alpha {
            sizes: vec![1, 0],
            batches: vec![vec![1, 2], vec![]],
            clears: Clears::Narrow,
            reopen: true,
            make_read_only: false,
            max_len: u64::MAX,
            far_clear: true,
        }
    }
    pub fn small() -> Alpha {
        Alpha {
            sizes: vec![1],
            batches: vec![vec![2, 0]],
            clears: Clears::Two,
            reopen: true,
            make_read_only: false,
            max_len: u64::MAX,
            far_clear: true,
        }
    }
    pub fn ops(&self, m: &SysModel) -> Vec<Op> {
        let mut v = vec![];
        let len = m.w.len();
        if len < self.max_len {
            for &n in &self.sizes {
                v.push(Op::Append(Blk::P(n, 0)));
            }
            for b in &self.batches {
                v.push(Op::Batch(b.iter().map(|&n| Blk::P(n, 1)).collect()));
            }
        }
        match self.clears {
            Clears::None => {}
            Clears::All => {
                for s in 0..len {
                    for e in s + 1..=len + 2 {
                        v.push(Op::Clear(s, e));
                    }
                }
            }
            Clears::Narrow => {
                for s in 0..len {
                    for e in [s + 1, s + 2] {
                        if e <= len + 1 {
                            v.push(Op::Clear(s, e));
                        }
                    }
                }
            }
            Clears::Two => {
                if len > 0 {
                    v.push(Op::Clear(0, 1));
                    if len > 1 {
                        v.push(Op::Clear(len - 1, len + 1));
                    }
                }
            }
        }
        if self.far_clear && len > 0 {
            v.push(Op::Clear(len - 1, len + 40));
            if len > 1 {
                v.push(Op::Clear(0, len + 40));
            }
        }
        if self.reopen {
            v.push(Op::Reopen);
        }
        if self.make_read_only {
            v.push(Op::MakeReadOnly);
        }
        v
    }
}

/// Is the op one that writes an oplog entry (participates in the flush cadence)?
fn mutating(op: &Op, m: &SysModel) -> bool {
    match op {
        Op::Append(_) => m.w.writable,
        Op::Batch(v) => m.w.writable && !v.is_empty(),
        Op::BatchN(n) => m.w.writable && *n > 0,
        Op::Clear(s, e) => s < e,
        _ => false,
    }
}

/// Coarse features of a writer history used in violation signatures:
/// kinds of entries pending (unflushed) in the oplog when the instance was last opened, whether
/// there was a reopen at all, and the number of mutating calls on the current instance (phase).
pub fn features(hist: &[Op]) -> String {
    let mut m = SysModel::new(hist.iter().any(|o| o.is_replica_op()));
    // per-instance list of mutating op kinds since last flush
    let mut pending: Vec<&'static str> = vec![];
    let mut count_on_instance = 0u32;
    let mut pending_at_open: Option<Vec<&'static str>> = None;
    let mut reopened = false;
    for op in hist {
        match op {
            Op::Reopen => {
                reopened = true;
                let mut p = pending.clone();
                p.sort();
                p.dedup();
                pending_at_open = Some(p);
                // entries stay pending across the reopen until the next flush
                count_on_instance = 0;
            }
            o if !o.is_replica_op() => {
                if mutating(o, &m) {
                    if count_on_instance % 4 == 0 {
                        pending.clear();
                    } else {
                        pending.push(o.kind());
                    }
                    if count_on_instance % 4 != 0 || true {
                        // the flushing call's own entry is folded into the files by the flush
                    }
                    count_on_instance += 1;
                }
                if matches!(o, Op::MakeReadOnly) && m.w.writable {
                    pending.clear();
                }
            }
            _ => {}
        }
        m.apply(op);
    }
    let pend = match pending_at_open {
        Some(p) if !p.is_empty() => p.join("+"),
        Some(_) => "none".to_string(),
        None => "-".to_string(),
    };
    format!(
        "reopened={} pending-at-open={} ",
        if reopened { "y" } else { "n" },
        pend
    )
}

/// The every-state oracle: result of the call, then has/get/info on a probe set, against the model.
pub struct ObsVisitor<'a> {
    pub prop: &'static str,
    pub rep: &'a Report,
    pub stats: &'a Stats,
    pub states: &'a FpSet,
    pub outcomes: &'a FpSet,
    pub with_contig: bool,
    /// only has/info (no get) beyond this log length, with boundary probes
    pub big: bool,
    pub local: BTreeMap<&'static str, u64>,
}

impl<'a> ObsVisitor<'a> {
    pub fn new(
        prop: &'static str,
        rep: &'a Report,
        stats: &'a Stats,
        states: &'a FpSet,
        outcomes: &'a FpSet,
        with_contig: bool,
    ) -> Self {
        ObsVisitor {
            prop,
            rep,
            stats,
            states,
            outcomes,
            with_contig,
            big: false,
            local: BTreeMap::new(),
        }
    }
    fn bump(&mut self, k: &'static str, n: u64) {
        *self.local.entry(k).or_insert(0) += n;
    }
}

impl<'a> Drop for ObsVisitor<'a> {
    fn drop(&mut self) {
        self.stats.merge_local(&self.local);
    }
}

pub fn probes_for(len: u64, big: bool) -> (Vec<u64>, Vec<u64>) {
    if !big || len <= 64 {
        let p = small_probes(len);
        (p.clone(), p)
    } else {
        // has on every index below length + boundary offsets into the next two pages;
        // get on boundary indices only
        let mut has: Vec<u64> = (0..len).collect();
        let page = 32768u64;
        let base = (len / page) * page;
        for pg in [base, base + page, base + 2 * page] {
            for off in [0u64, 1, 8191, 8192, 8193, 32767] {
                let i = pg + off;
                if i >= len {
                    has.push(i);
                }
            }
        }
        has.extend_from_slice(&FAR);
        let mut get: Vec<u64> = vec![];
        for b in [0u64, 1, 2, 8189, 8190, 8191, 8192, 8193, 8194, 32467, 32599, 32600, 32699, 32700, 32709, 32710, 32757, 32758, 32762, 32763, 32765, 32766, 32767, 32768, 32769, 32770, 32772, 32773, 32777, 32778, 65533, 65534, 65535, 65536, 65537, 65538] {
            if b <= len + 1 {
                get.push(b);
            }
        }
        for d in 0..3 {
            if len > d {
                get.push(len - 1 - d);
            }
        }
        get.push(len);
        get.push(len + 1);
        get.sort();
        get.dedup();
        (has, get)
    }
}

/// Compare the targeted core of `cx` with the model after the op. Returns a violation tuple.
pub fn observe_and_diff(cx: &mut Cx<'_>, with_contig: bool, big: bool) -> (Option<(String, String)>, u128) {
    let op = cx.op().clone();
    let replica = op.is_replica_op();
    let after = cx.sys.m.clone();
    let len = if replica {
        after.r.as_ref().unwrap().len.max(after.w.len())
    } else {
        after.w.len()
    };
    let (hp, gp) = probes_for(len, big);
    let core = cx.sys.target(&op);
    if core.core.is_none() {
        return (Some(("open-fails".into(), "core is not open".into())), 0);
    }
    let obs = observe(core.c(), &hp, &gp);
    let exp = if replica {
        expect_replica(&after.w, after.r.as_ref().unwrap(), &hp, &gp)
    } else {
        expect_writer(&after.w, &hp, &gp)
    };
    let ofp = crate::env::fp128(&[format!("{obs:?}").as_bytes()]);
    (diff_obs(&obs, &exp, &hp, &gp, with_contig), ofp)
}

impl<'a> Visitor for ObsVisitor<'a> {
    fn visit(&mut self, cx: &mut Cx<'_>) {
        self.bump("visited_prefixes", 1);
        self.bump("api_calls", 1);
        let op = cx.op().clone();
        let after = cx.sys.m.clone();
        let mut viol = check_result(&op, cx.out, cx.before, &after);
        if viol.is_none() && (cx.out.is_ok() || (matches!(op, Op::RClear(..)) && matches!(cx.out, Out::Err(_)))) {
            let (d, ofp) = observe_and_diff(cx, self.with_contig, self.big);
            viol = d;
            self.outcomes.insert(ofp);
            let reads = (probes_for(after.w.len(), self.big).0.len() * 2) as u64;
            self.bump("api_calls", reads);
        }
        let fp = cx.sys.fingerprint();
        if self.states.insert(fp) {
            self.bump("distinct_states", 1);
            let h = cx.hist;
            let nontrivial = h.iter().any(|o| matches!(o, Op::Append(_) | Op::Batch(_) | Op::BatchN(_)))
                && h.iter().any(|o| matches!(o, Op::Clear(..) | Op::Reopen | Op::RReopen | Op::RSync(_)));
            if nontrivial {
                self.bump("distinct_nontrivial_states", 1);
            }
        }
        if let Some((clause, detail)) = viol {
            let sig = format!("last={} {}", op.kind(), features(cx.hist));
            self.rep.violate(
                &clause,
                sig,
                format!("after [{}]: {}", hist_brief(cx.hist), detail),
                cx.case(self.prop, "E1"),
                cx.hist.len(),
            );
        } else if cx.hist.len() >= 3 {
            self.stats.sample(json!(hist_brief(cx.hist)));
        }
    }
}

pub fn parse_hist(case: &Value) -> Vec<Op> {
    serde_json::from_value(case["hist"].clone()).unwrap_or_default()
}
