//! E3 — fault enumerators nested inside E1: for the last call of each history, every journal
//! prefix (crash), every selected byte cut of the interrupted write (torn write) and every
//! storage operation failing once (I/O error). Oracle: reopen succeeds, observations equal the
//! model before or after the call, and the recovered core stays usable.

use super::common::*;
use crate::drv::*;
use crate::env::{self, apply, apply_torn, Image, JOp};
use crate::explore::*;
use crate::report::{Report, Stats};
use serde_json::json;
use std::collections::BTreeMap;

#[derive(Clone, Copy, Debug, PartialEq, Eq)]
pub enum Must {
    Before,
    After,
    Either,
}

#[derive(Clone, Copy, Debug, PartialEq, Eq)]
pub enum TornMode {
    Off,
    /// every cut for writes <= 64 bytes; boundary cuts for longer writes
    Boundaries,
    /// additionally every byte cut of every oplog write
    EveryOplogByte,
}

#[derive(Clone, Debug)]
pub struct FaultCfg {
    pub prop: &'static str,
    pub crash: bool,
    pub torn: TornMode,
    pub io_faults: bool,
    pub with_contig: bool,
    /// depth of the usability continuation after recovery (0 = none)
    pub cont_depth: usize,
    /// also enumerate a second crash inside each single next call after recovery
    pub double_fault: bool,
    /// secret key that must never survive make_read_only (C12); checked when set
    pub check_secret: bool,
    /// journal segments longer than this are thinned: all crash points among the first and last
    /// 24 operations, evenly spaced ones in between (page-scale tree flushes issue thousands of
    /// homogeneous 40-byte node writes). 0 = never thin.
    pub thin_over: usize,
}

pub struct FaultVisitor<'a> {
    pub cfg: FaultCfg,
    pub rep: &'a Report,
    pub stats: &'a Stats,
    pub local: BTreeMap<&'static str, u64>,
    pub distinct_images: &'a crate::report::FpSet,
}

impl<'a> Drop for FaultVisitor<'a> {
    fn drop(&mut self) {
        self.stats.merge_local(&self.local);
    }
}

pub fn cuts_for(j: &JOp, mode: TornMode) -> Vec<usize> {
    let JOp::W { s, data, .. } = j else { return vec![] };
    let n = data.len();
    if n <= 1 || mode == TornMode::Off {
        return vec![];
    }
    let mut c: Vec<usize> = vec![];
    if n <= 64 || (mode == TornMode::EveryOplogByte && *s == env::OPLOG) {
        c.extend(1..n);
    } else {
        c.extend(1..=16.min(n - 1));
        // framing boundaries of oplog records and tree nodes: leader (4 crc + 4 len), header
        // fixed part, node size/hash split
        for b in [4usize, 7, 8, 9, 10, 11, 12, 40, 41, 42, 43, 44, 48, 75, 76, 77, 108, 109, 140, 141, 142, 206, 207] {
            c.push(b);
        }
        let mut k = 512;
        while k < n {
            c.push(k - 1);
            c.push(k);
            c.push(k + 1);
            k += 512;
        }
        for d in 1..=8 {
            if n > d {
                c.push(n - d);
            }
        }
        c.retain(|&x| x >= 1 && x < n);
        c.sort();
        c.dedup();
    }
    c
}

fn cut_class(j: &JOp, cut: usize) -> String {
    let JOp::W { data, .. } = j else { return "-".into() };
    if cut < 4 {
        "in-crc".into()
    } else if cut < 8 {
        "in-lenword".into()
    } else if cut + 8 >= data.len() {
        "near-end".into()
    } else {
        "in-payload".into()
    }
}

pub struct Recovered {
    pub core: Core,
    /// which model matched: false = before, true = after
    pub matched_after: bool,
}

impl<'a> FaultVisitor<'a> {
    pub fn new(cfg: FaultCfg, rep: &'a Report, stats: &'a Stats, distinct_images: &'a crate::report::FpSet) -> Self {
        FaultVisitor {
            cfg,
            rep,
            stats,
            local: BTreeMap::new(),
            distinct_images,
        }
    }
    fn bump(&mut self, k: &'static str, n: u64) {
        *self.local.entry(k).or_insert(0) += n;
    }

    /// Open `image`, compare with before/after, return the recovered core if fine.
    #[allow(clippy::too_many_arguments)]
    fn recover_check(
        &mut self,
        cx: &Cx<'_>,
        image: Image,
        must: Must,
        before: &SysModel,
        after: &SysModel,
        window: &str,
        fault: serde_json::Value,
    ) -> Option<Recovered> {
        self.bump("recoveries", 1);
        let op = cx.op().clone();
        let replica = op.is_replica_op();
        if self.distinct_images.insert(env::fp_image(&image, b"")) {
            self.bump("distinct_fault_images", 1);
        }
        let report = |s: &mut Self, clause: &str, detail: String| {
            let sig = format!("last={} window=[{}] {}", op.kind(), window, features(&cx.hist[..cx.hist.len() - 1]));
            let mut case = cx.case(s.cfg.prop, "fault");
            case["fault"] = fault.clone();
            s.rep.violate(
                clause,
                sig,
                format!("history [{}], fault {}: {}", hist_brief(cx.hist), fault, detail),
                case,
                cx.hist.len() * 1000 + fault["k"].as_u64().unwrap_or(0) as usize,
            );
        };
        let (mut core, out) = Core::from_image(image, CacheCfg::Off);
        match out {
            Out::Ok(()) => {}
            Out::Err(e) => {
                report(self, "open-fails", format!("reopen returned Err({e})"));
                return None;
            }
            Out::Panic(p) => {
                report(self, "open-panics", format!("reopen panicked: {p}"));
                return None;
            }
        }
        let len = if replica {
            after.w.len()
        } else {
            after.w.len().max(before.w.len())
        };
        let (hp, gp) = probes_for(len, len > 64);
        let obs = observe(core.c(), &hp, &gp);
        let (eb, ea) = if replica {
            (
                expect_replica(&before.w, before.r.as_ref().unwrap(), &hp, &gp),
                expect_replica(&after.w, after.r.as_ref().unwrap(), &hp, &gp),
            )
        } else {
            (expect_writer(&before.w, &hp, &gp), expect_writer(&after.w, &hp, &gp))
        };
        let db = diff_obs(&obs, &eb, &hp, &gp, self.cfg.with_contig);
        let da = diff_obs(&obs, &ea, &hp, &gp, self.cfg.with_contig);
        // make_read_only: writable-with-all-data or read-only-with-all-data are both fine at
        // any crash point inside the call (C12), data being equal in both models
        let matched_after = match (must, &db, &da) {
            (_, Some(b), Some(a)) => {
                let clause = if b.0 == a.0 { b.0.clone() } else { format!("{}|{}", b.0, a.0) };
                report(
                    self,
                    &format!("neither-before-nor-after:{clause}"),
                    format!("vs before: {}; vs after: {}", b.1, a.1),
                );
                return None;
            }
            (Must::Before, Some(b), None) => {
                report(self, "effect-before-first-write", format!("no storage operation of the call was persisted, yet: {}", b.1));
                return None;
            }
            (Must::After, None, Some(a)) => {
                report(self, "returned-call-lost", format!("all storage operations of the call were persisted, yet: {}", a.1));
                return None;
            }
            (_, None, Some(_)) => false,
            (_, _, None) => true,
        };
        if self.cfg.check_secret && matches!(op, Op::MakeReadOnly) && matched_after {
            // handled by C12 itself on the image; nothing here
        }
        Some(Recovered { core, matched_after })
    }

    /// Usability: every continuation of depth <= cont_depth from the recovered image must obey
    /// the C01 oracle, starting from whichever model matched.
    #[allow(clippy::too_many_arguments)]
    fn continuation(
        &mut self,
        cx: &Cx<'_>,
        image: &Image,
        model: &SysModel,
        window: &str,
        fault: &serde_json::Value,
    ) {
        if self.cfg.cont_depth == 0 || cx.op().is_replica_op() {
            return;
        }
        let conts = continuations(model, self.cfg.cont_depth);
        for seq in conts {
            self.bump("continuations", 1);
            let (mut core, out) = Core::from_image(image.clone(), CacheCfg::Off);
            if !out.is_ok() {
                return;
            }
            let mut m = model.clone();
            for (i, op) in seq.iter().enumerate() {
                let before = m.clone();
                let n = m.w.len();
                let out = exec_writer(&mut core, op, n);
                m.apply(op);
                let mut viol = check_result(op, &out, &before, &m);
                if viol.is_none() && core.core.is_some() {
                    let (hp, gp) = probes_for(m.w.len(), m.w.len() > 64);
                    let obs = observe(core.c(), &hp, &gp);
                    let exp = expect_writer(&m.w, &hp, &gp);
                    viol = diff_obs(&obs, &exp, &hp, &gp, self.cfg.with_contig);
                }
                if let Some((clause, detail)) = viol {
                    let sig = format!(
                        "last={} window=[{}] cont={} {}",
                        cx.op().kind(),
                        window,
                        seq[..=i].iter().map(|o| o.kind()).collect::<Vec<_>>().join(">"),
                        features(&cx.hist[..cx.hist.len() - 1])
                    );
                    let mut case = cx.case(self.cfg.prop, "fault");
                    case["fault"] = fault.clone();
                    case["continuation"] = json!(seq[..=i].to_vec());
                    self.rep.violate(
                        &format!("unusable-after-recovery:{clause}"),
                        sig,
                        format!(
                            "history [{}], fault {}, then [{}]: {}",
                            hist_brief(cx.hist),
                            fault,
                            hist_brief(&seq[..=i]),
                            detail
                        ),
                        case,
                        cx.hist.len() * 1000 + 500 + i,
                    );
                    break;
                }
            }
        }
    }
}

pub fn continuations(model: &SysModel, depth: usize) -> Vec<Vec<Op>> {
    let base = |m: &SysModel| -> Vec<Op> {
        let mut v = vec![Op::Append(Blk::P(1, 7))];
        if m.w.len() > 0 {
            v.push(Op::Clear(0, 1));
        }
        v.push(Op::Reopen);
        v
    };
    let mut out: Vec<Vec<Op>> = vec![];
    let mut frontier: Vec<(Vec<Op>, SysModel)> = vec![(vec![], model.clone())];
    for _ in 0..depth {
        let mut next = vec![];
        for (seq, m) in &frontier {
            for op in base(m) {
                let mut s2 = seq.clone();
                s2.push(op.clone());
                let mut m2 = m.clone();
                m2.apply(&op);
                next.push((s2, m2));
            }
        }
        frontier = next;
    }
    // only maximal sequences: every prefix is checked while executing them
    for (s, _) in frontier {
        out.push(s);
    }
    out
}

fn window_name(jseg: &[JOp], p: usize) -> String {
    if jseg.is_empty() {
        return "no-writes".into();
    }
    if p == 0 {
        format!("before {}", jseg[0].kind())
    } else if p == jseg.len() {
        "after-all".into()
    } else {
        format!("after {} before {}", jseg[p - 1].kind(), jseg[p].kind())
    }
}

impl<'a> Visitor for FaultVisitor<'a> {
    fn visit(&mut self, cx: &mut Cx<'_>) {
        self.bump("histories", 1);
        let op = cx.op().clone();
        if !cx.out.is_ok() && !(matches!(op, Op::Append(_) | Op::Batch(_) | Op::BatchN(_)) && !cx.before.w.writable) {
            // a failing clean call is reported by the property that owns clean runs (C01/C03)
            return;
        }
        let before = cx.before.clone();
        let after = cx.sys.m.clone();
        let jseg: Vec<JOp> = {
            let t = cx.sys.target_ref(&op);
            let w = t.w.lock().unwrap_or_else(|e| e.into_inner());
            w.journal[cx.jstart..].to_vec()
        };
        let nops_end = env::nops(&cx.sys.target_ref(&op).w);
        if self.cfg.crash || self.cfg.torn != TornMode::Off {
            let n = jseg.len();
            let mut img = cx.img_before.clone();
            let thin = self.cfg.thin_over > 0 && n > self.cfg.thin_over;
            let stride = if thin { (n / 48).max(1) } else { 1 };
            if thin {
                self.bump("thinned_long_journal_segments", 1);
            }
            for p in 0..=n {
                if p > 0 {
                    apply(&mut img, &jseg[p - 1]);
                }
                if thin && p > 24 && p + 24 < n && p % stride != 0 {
                    continue;
                }
                crate::sup::tick();
                let window = window_name(&jseg, p);
                if self.cfg.crash {
                    self.bump("crash_points", 1);
                    let must = if p == n {
                        Must::After
                    } else if p == 0 {
                        Must::Before
                    } else {
                        Must::Either
                    };
                    let fault = json!({"kind": "crash", "k": p, "of": n});
                    if let Some(r) = self.recover_check(cx, img.clone(), must, &before, &after, &window, fault.clone()) {
                        let m = if r.matched_after { &after } else { &before };
                        drop(r.core);
                        self.continuation(cx, &img, m, &window, &fault);
                        if self.cfg.double_fault && !op.is_replica_op() {
                            self.double_fault(cx, &img, m, &window, &fault);
                        }
                    }
                }
                if self.cfg.torn != TornMode::Off && p < n {
                    for cut in cuts_for(&jseg[p], self.cfg.torn) {
                        self.bump("torn_images", 1);
                        let mut timg = img.clone();
                        apply_torn(&mut timg, &jseg[p], cut);
                        let w = format!("torn {} {}", jseg[p].kind(), cut_class(&jseg[p], cut));
                        let fault = json!({"kind": "torn", "k": p, "of": n, "cut": cut, "write": jseg[p].brief()});
                        if let Some(r) = self.recover_check(cx, timg.clone(), Must::Either, &before, &after, &w, fault.clone()) {
                            let m = if r.matched_after { &after } else { &before };
                            drop(r.core);
                            // continuation only on a thinned set of cuts (cost): first, middle, last
                            let JOp::W { data, .. } = &jseg[p] else { continue };
                            if cut == 1 || cut == data.len() / 2 || cut == data.len() - 1 || cut == 8 {
                                self.continuation(cx, &timg, m, &w, &fault);
                            }
                        }
                    }
                }
            }
        }
        if self.cfg.io_faults {
            self.io_faults(cx, &before, &after, cx.nops_start, nops_end);
            if matches!(op, Op::RSync(_)) {
                self.io_faults_serving_side(cx, &before);
            }
        }
    }
}

impl<'a> FaultVisitor<'a> {
    /// crash -> recover -> one more call -> crash inside it
    fn double_fault(&mut self, cx: &Cx<'_>, image: &Image, model: &SysModel, window: &str, fault: &serde_json::Value) {
        for op2 in continuations(model, 1).into_iter().map(|s| s[0].clone()) {
            if matches!(op2, Op::Reopen) {
                continue;
            }
            let (mut core, out) = Core::from_image(image.clone(), CacheCfg::Off);
            if !out.is_ok() {
                return;
            }
            let j0 = env::journal_len(&core.w);
            let mut m2 = model.clone();
            let n = m2.w.len();
            let o = exec_writer(&mut core, &op2, n);
            m2.apply(&op2);
            if !o.is_ok() {
                continue; // reported by continuation()
            }
            let jseg: Vec<JOp> = core.w.lock().unwrap_or_else(|e| e.into_inner()).journal[j0..].to_vec();
            drop(core);
            let mut img = image.clone();
            for p in 0..=jseg.len() {
                if p > 0 {
                    apply(&mut img, &jseg[p - 1]);
                }
                self.bump("double_fault_images", 1);
                let (mut c2, out) = Core::from_image(img.clone(), CacheCfg::Off);
                let mut bad: Option<(String, String)> = None;
                match out {
                    Out::Ok(()) => {
                        let len = m2.w.len();
                        let (hp, gp) = probes_for(len, len > 64);
                        let obs = observe(c2.c(), &hp, &gp);
                        let eb = expect_writer(&model.w, &hp, &gp);
                        let ea = expect_writer(&m2.w, &hp, &gp);
                        let db = diff_obs(&obs, &eb, &hp, &gp, self.cfg.with_contig);
                        let da = diff_obs(&obs, &ea, &hp, &gp, self.cfg.with_contig);
                        if let (Some(b), Some(a)) = (db, da) {
                            bad = Some(("neither-before-nor-after".into(), format!("vs before: {}; vs after: {}", b.1, a.1)));
                        }
                    }
                    Out::Err(e) => bad = Some(("open-fails".into(), e)),
                    Out::Panic(e) => bad = Some(("open-panics".into(), e)),
                }
                if let Some((clause, detail)) = bad {
                    let w2 = window_name(&jseg, p);
                    let sig = format!(
                        "last={} window=[{}] then={} window2=[{}] {}",
                        cx.op().kind(),
                        window,
                        op2.kind(),
                        w2,
                        features(&cx.hist[..cx.hist.len() - 1])
                    );
                    let mut case = cx.case(self.cfg.prop, "double-fault");
                    case["fault"] = fault.clone();
                    case["then"] = json!(op2);
                    case["fault2"] = json!({"kind":"crash","k":p,"of":jseg.len()});
                    self.rep.violate(
                        &format!("double-fault:{clause}"),
                        sig,
                        format!(
                            "history [{}], fault {}, recovered, then {} crashed at {}/{}: {}",
                            hist_brief(cx.hist),
                            fault,
                            op2.brief(),
                            p,
                            jseg.len(),
                            detail
                        ),
                        case,
                        cx.hist.len() * 1000 + 900,
                    );
                }
            }
        }
    }

    fn io_faults(&mut self, cx: &mut Cx<'_>, before: &SysModel, after: &SysModel, n0: u64, n1: u64) {
        let op = cx.op().clone();
        let hist: Vec<Op> = cx.hist.to_vec();
        let with_replica = cx.sys.rp.is_some();
        for k in n0..n1 {
            self.bump("io_fault_positions", 1);
            // re-execute the history on a fresh system, failing storage operation k of the
            // target world inside the last call
            let mut sys = Sys::new(with_replica, CacheCfg::Off);
            sys.altered = cx.sys.altered;
            let mut ok = true;
            for o in &hist[..hist.len() - 1] {
                if !sys.exec(o).is_ok() && !(matches!(o, Op::Append(_) | Op::Batch(_) | Op::BatchN(_)) && !sys.m.w.writable) {
                    ok = false;
                    break;
                }
            }
            if !ok {
                return;
            }
            let tw = sys.target_ref(&op).w.clone();
            {
                let mut w = tw.lock().unwrap_or_else(|e| e.into_inner());
                if w.nops != n0 {
                    // nondeterminism in the harness would be a machinery error
                    eprintln!("harness: storage-op count diverged while replaying a prefix ({} vs {})", w.nops, n0);
                    std::process::exit(2);
                }
                w.fail_at = Some(k);
                w.failed_kind = None;
            }
            let out = sys.exec_real(&op);
            let (failed_kind, _nops_now) = {
                let mut w = tw.lock().unwrap_or_else(|e| e.into_inner());
                w.fail_at = None;
                (w.failed_kind.take(), w.nops)
            };
            let Some((fs, fk)) = failed_kind else {
                continue; // the fault position was not reached (cannot happen: deterministic)
            };
            let window = format!("io-fail {:?} {}", fk, env::STORE_NAMES[fs]);
            let fault = json!({"kind": "io", "k": k - n0, "of": n1 - n0, "op": format!("{:?} {}", fk, env::STORE_NAMES[fs])});
            let surfaced = match (&op, &out) {
                (_, Out::Err(_)) => true,
                // a replica sync reports an apply error inside Ok(Synced{applied: Some(Err)})
                (Op::RSync(_), Out::Ok(OpRes::Synced { applied: Some(Err(_)), .. })) => true,
                _ => false,
            };
            if !surfaced {
                let clause = if out.is_panic() { "io-fault-panics" } else { "io-fault-swallowed" };
                let sig = format!("last={} window=[{}] {}", op.kind(), window, features(&hist[..hist.len() - 1]));
                let mut case = cx.case(self.cfg.prop, "fault");
                case["fault"] = fault.clone();
                self.rep.violate(
                    clause,
                    sig,
                    format!("history [{}], fault {}: call returned {}", hist_brief(&hist), fault, out.brief()),
                    case,
                    hist.len() * 1000 + (k - n0) as usize,
                );
                continue;
            }
            // drop the instance and reopen the same storage
            let image = env::image_of(&tw);
            drop(sys);
            if let Some(r) = self.recover_check(cx, image.clone(), Must::Either, before, after, &window, fault.clone()) {
                let m = if r.matched_after { after } else { before };
                drop(r.core);
                self.continuation(cx, &image, m, &window, &fault);
            }
        }
    }
}

impl<'a> FaultVisitor<'a> {
    /// A storage error on the *serving* core while it creates the proof for a replica's request:
    /// create_proof must return an error, the replica must be untouched and the serving core
    /// must answer as before.
    fn io_faults_serving_side(&mut self, cx: &mut Cx<'_>, before: &SysModel) {
        let op = cx.op().clone();
        let hist: Vec<Op> = cx.hist.to_vec();
        let n0 = cx.wr_nops_start;
        let n1 = env::nops(&cx.sys.wr.w);
        for k in n0..n1 {
            self.bump("io_fault_positions", 1);
            let mut sys = Sys::new(true, CacheCfg::Off);
            sys.altered = cx.sys.altered;
            let mut ok = true;
            for o in &hist[..hist.len() - 1] {
                if !sys.exec(o).is_ok() {
                    ok = false;
                    break;
                }
            }
            if !ok {
                return;
            }
            let ww = sys.wr.w.clone();
            {
                let mut w = ww.lock().unwrap_or_else(|e| e.into_inner());
                if w.nops != n0 {
                    eprintln!("harness: storage-op count of the writer diverged while replaying a prefix ({} vs {})", w.nops, n0);
                    std::process::exit(2);
                }
                w.fail_at = Some(k);
                w.failed_kind = None;
            }
            let out = sys.exec_real(&op);
            let failed_kind = {
                let mut w = ww.lock().unwrap_or_else(|e| e.into_inner());
                w.fail_at = None;
                w.failed_kind.take()
            };
            let Some((fs, fk)) = failed_kind else { continue };
            let window = format!("serving-side io-fail {:?} {}", fk, env::STORE_NAMES[fs]);
            let fault = json!({"kind": "io-serving", "k": k - n0, "of": n1 - n0, "op": format!("{:?} {}", fk, env::STORE_NAMES[fs])});
            let mut viol: Option<(String, String)> = None;
            if !matches!(out, Out::Err(_)) {
                viol = Some((if out.is_panic() { "io-fault-panics" } else { "io-fault-swallowed" }.to_string(), format!("create_proof side returned {}", out.brief())));
            }
            if viol.is_none() {
                // replica untouched, writer answers as before (live instances)
                let len = before.w.len();
                let (hp, gp) = probes_for(len, false);
                let wobs = observe(sys.wr.c(), &hp, &gp);
                if let Some((c, d)) = diff_obs(&wobs, &expect_writer(&before.w, &hp, &gp), &hp, &gp, false) {
                    viol = Some((format!("serving-core-changed:{c}"), d));
                }
                if viol.is_none() {
                    let robs = observe(sys.rp.as_mut().unwrap().c(), &hp, &gp);
                    if let Some((c, d)) = diff_obs(&robs, &expect_replica(&before.w, before.r.as_ref().unwrap(), &hp, &gp), &hp, &gp, false) {
                        viol = Some((format!("replica-changed:{c}"), d));
                    }
                }
            }
            if let Some((clause, detail)) = viol {
                let sig = format!("last={} window=[{}]", op.kind(), window);
                let mut case = cx.case(self.cfg.prop, "fault");
                case["fault"] = fault.clone();
                self.rep.violate(&clause, sig, format!("history [{}], fault {}: {}", hist_brief(&hist), fault, detail), case, hist.len() * 1000 + (k - n0) as usize);
            }
        }
    }
}

// ------------------------------------------------------------------------------------------
// shared runner for C02 / C07 / C10 (and the crash part of C08 / C12)

pub struct FaultFamily {
    pub name: &'static str,
    pub depth: usize,
    pub prefix: Vec<Op>,
    pub alpha: Alpha,
    pub replica: bool,
    /// replica alphabet with writer growth (appends) up to this writer length; 0 = static writer
    pub growth_to: u64,
}

/// Well-formed replica requests in the current model state (used by the replica families).
pub fn replica_ops(m: &SysModel, rich: bool) -> Vec<Op> {
    let mut v = vec![];
    let Some(r) = m.r.as_ref() else { return v };
    let wl = m.w.len();
    let rl = r.len;
    if rl < wl {
        let targets: Vec<u64> = if rich && wl - rl > 1 { vec![wl, rl + 1] } else { vec![wl] };
        for t in targets {
            v.push(Op::RSync(Req { up: Some(t), ..Default::default() }));
            let blocks: Vec<u64> = if rich { (0..t).collect() } else { vec![0, t - 1] };
            for i in blocks {
                if i < t {
                    v.push(Op::RSync(Req { block: Some(i), up: Some(t), ..Default::default() }));
                }
            }
        }
    } else {
        let mut n_held = 0;
        for i in 0..wl {
            if r.held.contains(&i) {
                n_held += 1;
                if n_held > 1 {
                    continue;
                }
            }
            v.push(Op::RSync(Req { block: Some(i), ..Default::default() }));
        }
    }
    v.dedup();
    v.push(Op::RReopen);
    v
}

/// Replica alphabet with writer growth, a few hash requests and replica reopen: leaves
/// upgrade-only, nodes-only and block-only entries pending in the replica's oplog.
pub fn replica_ops_growth(m: &SysModel, max_writer_len: u64) -> Vec<Op> {
    let mut v = replica_ops(m, false);
    if let Some(r) = m.r.as_ref() {
        if r.len == m.w.len() && r.len > 0 {
            for j in [0u64, 1, 2 * (r.len - 1)] {
                if crate::scheme::right_span(j) < 2 * r.len {
                    v.push(Op::RSync(Req { hash: Some(j), ..Default::default() }));
                }
            }
        }
    }
    if m.w.len() < max_writer_len {
        v.push(Op::Append(Blk::P(2, 4)));
    }
    if let Some(r) = m.r.as_ref() {
        if let Some(&h) = r.held.iter().next() {
            v.push(Op::RClear(h, h + 1));
        }
        if r.len > 1 {
            v.push(Op::RClear(r.len - 1, r.len + 40));
        }
    }
    v.dedup();
    v
}

pub fn fault_families(tier: &str, scale: i32) -> Vec<FaultFamily> {
    // scale: depth adjustment relative to C02 (torn writes multiply the cost: scale = -1)
    let quick = tier == "quick";
    let d = |q: usize, t: usize| -> usize { ((if quick { q } else { t }) as i32 + scale).max(1) as usize };
    let mut mro_full = Alpha::full();
    mro_full.make_read_only = true;
    let mut mro_medium = Alpha::medium();
    mro_medium.make_read_only = true;
    let mut v = vec![
        FaultFamily { name: "full-alphabet", depth: d(3, 4), prefix: vec![], alpha: mro_full, replica: false, growth_to: 0 },
        FaultFamily { name: "medium-alphabet", depth: d(4, 6), prefix: vec![], alpha: mro_medium, replica: false, growth_to: 0 },
        FaultFamily { name: "small-alphabet", depth: d(6, 8), prefix: vec![], alpha: Alpha::small(), replica: false, growth_to: 0 },
        FaultFamily {
            name: "append-reopen",
            depth: d(10, 13),
            prefix: vec![],
            alpha: Alpha { sizes: vec![1], batches: vec![], clears: Clears::None, reopen: true, make_read_only: false, max_len: u64::MAX, far_clear: false },
            replica: false,
            growth_to: 0,
        },
    ];
    // replica families: fixed writer logs, all well-formed request orders to a depth
    let w5 = vec![
        Op::Batch(vec![Blk::P(1, 0), Blk::P(2, 0), Blk::P(3, 0), Blk::P(0, 0), Blk::P(1, 0)]),
        Op::Clear(1, 2),
    ];
    let w3 = vec![Op::Append(Blk::P(2, 0)), Op::Append(Blk::P(1, 0)), Op::Append(Blk::P(3, 0))];
    v.push(FaultFamily { name: "replica-of-5-with-cleared", depth: d(3, 5), prefix: w5, alpha: Alpha::small(), replica: true, growth_to: 0 });
    v.push(FaultFamily { name: "replica-of-3", depth: d(4, 6), prefix: w3.clone(), alpha: Alpha::small(), replica: true, growth_to: 0 });
    v.push(FaultFamily { name: "replica-of-3-with-writer-growth-and-hash-requests", depth: d(5, 6), prefix: w3[..2].to_vec(), alpha: Alpha::small(), replica: true, growth_to: 5 });
    v
}

pub fn run_fault_property(prop: &'static str, tier: &str, level: &str, cfg: FaultCfg, fams: Vec<FaultFamily>, assumptions: Vec<String>) -> i32 {
    let rep = Report::new(prop, tier, level);
    let stats = Stats::default();
    let images = crate::report::FpSet::default();
    let mut fam_json = vec![];
    let mut leaves_total = 0u64;
    for fam in fams {
        let alpha = fam.alpha.clone();
        let replica = fam.replica;
        let growth_to = fam.growth_to;
        let af = move |m: &SysModel, _d: usize| {
            if replica && growth_to > 0 {
                replica_ops_growth(m, growth_to)
            } else if replica {
                replica_ops(m, true)
            } else {
                alpha.ops(m)
            }
        };
        let e = E1 {
            prop,
            depth: fam.depth,
            with_replica: fam.replica,
            prefix: fam.prefix.clone(),
            alphabet: &af,
            threads: nthreads(),
            cache: CacheCfg::Off,
            altered: None,
        };
        let mk = || FaultVisitor::new(cfg.clone(), &rep, &stats, &images);
        let t = std::time::Instant::now();
        let (vs, leaves) = e.run(&mk);
        drop(vs);
        leaves_total += leaves;
        fam_json.push(json!({"family": fam.name, "depth": fam.depth, "prefix_ops": fam.prefix.len(),
            "replica": fam.replica, "complete_histories": leaves, "secs": t.elapsed().as_secs_f64()}));
    }
    let evals = stats.get("recoveries") + stats.get("io_fault_positions");
    let coverage = json!({
        "evaluations": evals,
        "distinct_nontrivial": stats.get("distinct_fault_images"),
        "rule": "for every history h.c over the family alphabets up to the depth (each distinct prefix once), every fault of the configured kinds inside the last call c: journal prefixes (crash), byte cuts of the interrupted write (torn), failing storage operations (I/O error); each case reopens the real crate on the faulted image and compares info/has/get with the model before and after c, then runs the usability continuations; distinct_nontrivial = distinct faulted storage images",
        "histories": stats.get("histories"),
        "complete_histories": leaves_total,
        "crash_points": stats.get("crash_points"),
        "torn_images": stats.get("torn_images"),
        "io_fault_positions": stats.get("io_fault_positions"),
        "continuation_sequences": stats.get("continuations"),
        "double_fault_images": stats.get("double_fault_images"),
        "families": fam_json,
        "samples": [
            {"history": "append[1]; append[1]; reopen; append[1]", "faults": "crash after each of the journal prefixes of the last append; torn cuts of each write; each storage op failing"},
        ],
        "exhaustive": true,
        "config": format!("{cfg:?}"),
    });
    rep.finish(coverage, assumptions)
}

pub fn replay_fault(prop: &'static str, cfg: FaultCfg, case: &serde_json::Value, rep: &Report) {
    let hist = parse_hist(case);
    let stats = Stats::default();
    let images = crate::report::FpSet::default();
    let mut v = FaultVisitor::new(cfg, rep, &stats, &images);
    let with_replica = hist.iter().any(|o| o.is_replica_op());
    replay_history(&hist, with_replica, CacheCfg::Off, None, &mut v);
}
