pub mod common;
pub mod c01;
