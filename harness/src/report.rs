//! Violations, signatures, replay files, known findings and evidence files.

use serde_json::{json, Value};
use std::collections::BTreeMap;
use std::path::PathBuf;
use std::sync::atomic::{AtomicU64, Ordering};
use std::sync::Mutex;
use std::time::Instant;

pub fn verif_dir() -> PathBuf {
    std::env::var("HCVERIF_DIR")
        .map(PathBuf::from)
        .unwrap_or_else(|_| std::env::current_dir().unwrap())
}

#[derive(Debug, Clone)]
pub struct Violation {
    pub clause: String,
    /// coarse feature vector: one root cause -> one signature
    pub sig: String,
    pub detail: String,
    /// self-contained replayable case
    pub case: Value,
    /// size used to keep the smallest case per signature
    pub size: usize,
}

pub struct Report {
    pub prop: String,
    pub tier: String,
    pub level: String,
    pub seed: i64,
    pub start: Instant,
    viols: Mutex<BTreeMap<(String, String), Violation>>,
    pub raw_violations: AtomicU64,
}

fn glob(pat: &str, s: &str) -> bool {
    // '*' matches any run of characters
    let parts: Vec<&str> = pat.split('*').collect();
    if parts.len() == 1 {
        return pat == s;
    }
    let mut pos = 0usize;
    for (i, p) in parts.iter().enumerate() {
        if p.is_empty() {
            continue;
        }
        if i == 0 {
            if !s.starts_with(p) {
                return false;
            }
            pos = p.len();
        } else if i == parts.len() - 1 {
            return s.len() >= pos + p.len() && s[pos..].ends_with(p);
        } else {
            match s[pos..].find(p) {
                Some(k) => pos += k + p.len(),
                None => return false,
            }
        }
    }
    true
}

impl Report {
    pub fn new(prop: &str, tier: &str, level: &str) -> Report {
        let seed = std::env::var("VERIF_SEED")
            .ok()
            .and_then(|s| s.parse::<i64>().ok())
            .unwrap_or(0);
        Report {
            prop: prop.to_string(),
            tier: tier.to_string(),
            level: level.to_string(),
            seed,
            start: Instant::now(),
            viols: Mutex::new(BTreeMap::new()),
            raw_violations: AtomicU64::new(0),
        }
    }

    pub fn add(&self, v: Violation) {
        self.raw_violations.fetch_add(1, Ordering::Relaxed);
        let mut m = self.viols.lock().unwrap_or_else(|e| e.into_inner());
        let key = (v.clause.clone(), v.sig.clone());
        match m.get(&key) {
            Some(old) if old.size <= v.size => {}
            _ => {
                m.insert(key, v);
            }
        }
    }

    pub fn violate(&self, clause: &str, sig: String, detail: String, case: Value, size: usize) {
        self.add(Violation {
            clause: clause.to_string(),
            sig,
            detail,
            case,
            size,
        });
    }

    pub fn num_signatures(&self) -> usize {
        self.viols.lock().unwrap_or_else(|e| e.into_inner()).len()
    }

    pub fn violations(&self) -> Vec<Violation> {
        self.viols.lock().unwrap_or_else(|e| e.into_inner()).values().cloned().collect()
    }

    /// Match against known findings, write replay files, print the verdict lines, write the
    /// evidence file. Returns the process exit code.
    pub fn finish(&self, mut coverage: Value, assumptions: Vec<String>) -> i32 {
        let dir = verif_dir();
        let known: Value = std::fs::read_to_string(dir.join("known_findings.json"))
            .ok()
            .and_then(|s| serde_json::from_str(&s).ok())
            .unwrap_or(json!({"findings": []}));
        let empty = vec![];
        let findings = known["findings"].as_array().unwrap_or(&empty);
        let viols = self.violations();
        let mut unlisted = 0;
        let mut printed_known: Vec<String> = vec![];
        let mut known_hits = 0;
        std::fs::create_dir_all(dir.join("replays")).ok();
        for v in &viols {
            let hit = findings.iter().find(|f| {
                f["property"].as_str() == Some(&self.prop)
                    && glob(f["clause"].as_str().unwrap_or("*"), &v.clause)
                    && glob(f["sig"].as_str().unwrap_or("*"), &v.sig)
            });
            if let Some(f) = hit {
                known_hits += 1;
                let what = f["description"].as_str().unwrap_or("").to_string();
                if !printed_known.contains(&what) {
                    println!("KNOWN-FINDING: property={} {}", self.prop, what);
                    printed_known.push(what);
                }
            } else {
                unlisted += 1;
                let body = json!({
                    "property": self.prop,
                    "clause": v.clause,
                    "signature": v.sig,
                    "detail": v.detail,
                    "case": v.case,
                });
                let text = serde_json::to_string_pretty(&body).unwrap();
                let h = crate::env::fp128(&[v.clause.as_bytes(), v.sig.as_bytes()]);
                let name = format!("{}-{:016x}.json", self.prop, (h >> 64) as u64);
                let path = dir.join("replays").join(&name);
                std::fs::write(&path, text).ok();
                println!(
                    "VIOLATION property={} replay={} clause={} sig=[{}] :: {}",
                    self.prop,
                    path.display(),
                    v.clause,
                    v.sig,
                    v.detail
                );
            }
        }
        let wall = self.start.elapsed().as_secs_f64();
        if let Some(o) = coverage.as_object_mut() {
            o.insert("violation_signatures".into(), json!(viols.len()));
            o.insert(
                "raw_violating_cases".into(),
                json!(self.raw_violations.load(Ordering::Relaxed)),
            );
            o.insert("known_finding_signatures".into(), json!(known_hits));
        }
        let ev = json!({
            "property_id": self.prop,
            "tier": self.tier,
            "seed": self.seed,
            "level": self.level,
            "coverage": coverage,
            "assumptions": assumptions,
            "wall_s": (wall * 1000.0).round() / 1000.0,
            "violations": unlisted,
        });
        std::fs::create_dir_all(dir.join("evidence")).ok();
        let variant = std::env::var("HCVERIF_VARIANT").unwrap_or_default();
        let path = if variant.is_empty() {
            dir.join("evidence").join(format!("{}.json", self.prop))
        } else {
            dir.join("evidence").join(format!("{}.{}.json", self.prop, variant))
        };
        std::fs::write(&path, serde_json::to_string_pretty(&ev).unwrap() + "\n")
            .expect("cannot write evidence");
        println!(
            "{} {} done in {:.1}s: {} violation signature(s), {} unlisted; evidence {}",
            self.prop,
            self.tier,
            wall,
            viols.len(),
            unlisted,
            path.display()
        );
        if unlisted > 0 {
            1
        } else {
            0
        }
    }
}

/// Thread-safe counters and sample collection shared by the explorers.
#[derive(Default)]
pub struct Stats {
    pub counters: Mutex<BTreeMap<String, u64>>,
    pub samples: Mutex<Vec<Value>>,
    pub outcomes: Mutex<std::collections::BTreeSet<String>>,
}

impl Stats {
    pub fn add(&self, k: &str, n: u64) {
        *self.counters.lock().unwrap_or_else(|e| e.into_inner()).entry(k.to_string()).or_insert(0) += n;
    }
    pub fn merge_local(&self, local: &BTreeMap<&'static str, u64>) {
        let mut c = self.counters.lock().unwrap_or_else(|e| e.into_inner());
        for (k, v) in local {
            *c.entry(k.to_string()).or_insert(0) += *v;
        }
    }
    pub fn get(&self, k: &str) -> u64 {
        *self.counters.lock().unwrap_or_else(|e| e.into_inner()).get(k).unwrap_or(&0)
    }
    pub fn sample(&self, v: Value) {
        let mut s = self.samples.lock().unwrap_or_else(|e| e.into_inner());
        if s.len() < 5 {
            s.push(v);
        }
    }
    pub fn outcome(&self, o: &str) {
        let mut s = self.outcomes.lock().unwrap_or_else(|e| e.into_inner());
        if s.len() < 10_000 && !s.contains(o) {
            s.insert(o.to_string());
        }
    }
    pub fn counters_json(&self) -> Value {
        let c = self.counters.lock().unwrap_or_else(|e| e.into_inner());
        json!(*c)
    }
}

/// A set of 128-bit fingerprints, sharded to keep lock contention low.
pub struct FpSet {
    shards: Vec<Mutex<std::collections::HashSet<u128>>>,
}
impl Default for FpSet {
    fn default() -> Self {
        FpSet {
            shards: (0..64).map(|_| Mutex::new(Default::default())).collect(),
        }
    }
}
impl FpSet {
    /// returns true if newly inserted
    pub fn insert(&self, fp: u128) -> bool {
        self.shards[(fp as usize) & 63].lock().unwrap_or_else(|e| e.into_inner()).insert(fp)
    }
    pub fn len(&self) -> usize {
        self.shards.iter().map(|s| s.lock().unwrap_or_else(|e| e.into_inner()).len()).sum()
    }
}
