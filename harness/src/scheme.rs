//! Independent reference of the Hypercore v10 Merkle / signature scheme and of flat in-order
//! tree arithmetic (plain integer formulas; does not use the `flat-tree` crate or any code of
//! the crate under test). Trusted primitives: blake2, ed25519-dalek.

use blake2::digest::consts::U32;
use blake2::{Blake2b, Digest};
use ed25519_dalek::{Signature, Verifier, VerifyingKey};

type B2 = Blake2b<U32>;

pub const TREE_NS: [u8; 32] = [
    0x9F, 0xAC, 0x70, 0xB5, 0x0C, 0xA1, 0x4E, 0xFC, 0x4E, 0x91, 0xC8, 0x33, 0xB2, 0x04, 0xE7, 0x5B, 0x8B, 0x5A,
    0xAD, 0x8B, 0x58, 0x81, 0xBF, 0xC0, 0xAD, 0xB5, 0xEF, 0x38, 0xA3, 0x27, 0x5B, 0x9C,
];

// ---- flat tree ---------------------------------------------------------------------------

/// depth of node i = number of trailing one bits
pub fn depth(i: u64) -> u32 {
    (!i).trailing_zeros()
}
/// offset of node i inside its depth level
pub fn offset(i: u64) -> u64 {
    let d = depth(i);
    if d >= 63 {
        0
    } else {
        i >> (d + 1)
    }
}
pub fn index(d: u32, off: u64) -> u64 {
    (off << (d + 1)) | ((1u64 << d) - 1)
}
pub fn parent(i: u64) -> u64 {
    let d = depth(i);
    index(d + 1, offset(i) >> 1)
}
pub fn sibling(i: u64) -> u64 {
    let d = depth(i);
    index(d, offset(i) ^ 1)
}
pub fn is_left(i: u64) -> bool {
    offset(i) & 1 == 0
}
pub fn left_child(i: u64) -> Option<u64> {
    let d = depth(i);
    if d == 0 {
        None
    } else {
        Some(index(d - 1, offset(i) << 1))
    }
}
pub fn right_child(i: u64) -> Option<u64> {
    let d = depth(i);
    if d == 0 {
        None
    } else {
        Some(index(d - 1, (offset(i) << 1) + 1))
    }
}
/// leftmost / rightmost leaf (tree indices) under node i
pub fn left_span(i: u64) -> u64 {
    let d = depth(i);
    offset(i) * (2u64 << d)
}
pub fn right_span(i: u64) -> u64 {
    let d = depth(i);
    (offset(i) + 1) * (2u64 << d) - 2
}
/// number of leaves under node i
pub fn leaves_under(i: u64) -> u64 {
    1u64 << depth(i)
}
/// roots of the full subtrees covering blocks 0..n (tree indices, left to right)
pub fn full_roots(n: u64) -> Vec<u64> {
    let mut roots = vec![];
    let mut start = 0u64; // in blocks
    let mut rem = n;
    while rem > 0 {
        let p = 63 - rem.leading_zeros(); // largest power of two <= rem
        let size = 1u64 << p;
        // subtree over blocks [start, start+size): root at depth p, offset start/size
        roots.push(index(p, start >> p));
        start += size;
        rem -= size;
    }
    roots
}
/// ancestor of tree index i, k levels up
pub fn ancestor(i: u64, k: u64) -> u64 {
    let mut x = i;
    for _ in 0..k {
        x = parent(x);
    }
    x
}

// ---- hashes ------------------------------------------------------------------------------

pub fn leaf_hash(data: &[u8]) -> [u8; 32] {
    let mut h = B2::new();
    h.update([0u8]);
    h.update((data.len() as u64).to_le_bytes());
    h.update(data);
    h.finalize().into()
}
pub fn parent_hash(size: u64, left: &[u8; 32], right: &[u8; 32]) -> [u8; 32] {
    let mut h = B2::new();
    h.update([1u8]);
    h.update(size.to_le_bytes());
    h.update(left);
    h.update(right);
    h.finalize().into()
}
#[derive(Debug, Clone, PartialEq, Eq)]
pub struct RNode {
    pub index: u64,
    pub size: u64,
    pub hash: [u8; 32],
}
pub fn tree_hash(roots: &[RNode]) -> [u8; 32] {
    let mut h = B2::new();
    h.update([2u8]);
    for r in roots {
        h.update(r.hash);
        h.update(r.index.to_le_bytes());
        h.update(r.size.to_le_bytes());
    }
    h.finalize().into()
}
pub fn signable(tree_hash: &[u8; 32], length: u64, fork: u64) -> Vec<u8> {
    let mut v = Vec::with_capacity(80);
    v.extend_from_slice(&TREE_NS);
    v.extend_from_slice(tree_hash);
    v.extend_from_slice(&length.to_le_bytes());
    v.extend_from_slice(&fork.to_le_bytes());
    v
}
pub fn verify_sig(pk: &[u8; 32], msg: &[u8], sig: &[u8]) -> bool {
    let Ok(vk) = VerifyingKey::from_bytes(pk) else { return false };
    let Ok(sig) = Signature::from_slice(sig) else { return false };
    vk.verify(msg, &sig).is_ok()
}

/// The complete reference tree of a block sequence: every full node (index -> (size, hash)).
pub struct RefTree {
    pub n: u64,
    pub nodes: std::collections::BTreeMap<u64, RNode>,
}

impl RefTree {
    pub fn build(blocks: &[Vec<u8>]) -> RefTree {
        let n = blocks.len() as u64;
        let mut nodes = std::collections::BTreeMap::new();
        for (i, b) in blocks.iter().enumerate() {
            let idx = 2 * i as u64;
            nodes.insert(
                idx,
                RNode {
                    index: idx,
                    size: b.len() as u64,
                    hash: leaf_hash(b),
                },
            );
        }
        // parents, level by level, only full subtrees (right span below 2n)
        let mut d = 1u32;
        while (1u64 << d) <= n.max(1) {
            let mut off = 0u64;
            loop {
                let idx = index(d, off);
                if right_span(idx) >= 2 * n {
                    break;
                }
                let l = nodes[&left_child(idx).unwrap()].clone();
                let r = nodes[&right_child(idx).unwrap()].clone();
                let size = l.size + r.size;
                nodes.insert(
                    idx,
                    RNode {
                        index: idx,
                        size,
                        hash: parent_hash(size, &l.hash, &r.hash),
                    },
                );
                off += 1;
            }
            d += 1;
        }
        RefTree { n, nodes }
    }
    pub fn roots(&self, n: u64) -> Vec<RNode> {
        full_roots(n).iter().map(|i| self.nodes[i].clone()).collect()
    }
    pub fn root_hash(&self, n: u64) -> [u8; 32] {
        tree_hash(&self.roots(n))
    }
    /// byte offset of the first byte under tree node i
    pub fn byte_offset(&self, i: u64) -> u64 {
        let first_leaf = left_span(i) / 2;
        (0..first_leaf).map(|b| self.nodes[&(2 * b)].size).sum()
    }
}

/// table-driven CRC-32 (IEEE), own implementation
pub fn crc32(data: &[u8]) -> u32 {
    static TABLE: std::sync::OnceLock<[u32; 256]> = std::sync::OnceLock::new();
    let t = TABLE.get_or_init(|| {
        let mut t = [0u32; 256];
        for (i, e) in t.iter_mut().enumerate() {
            let mut c = i as u32;
            for _ in 0..8 {
                c = if c & 1 != 0 { 0xEDB8_8320 ^ (c >> 1) } else { c >> 1 };
            }
            *e = c;
        }
        t
    });
    let mut c = 0xFFFF_FFFFu32;
    for &b in data {
        c = t[((c ^ b as u32) & 0xFF) as usize] ^ (c >> 8);
    }
    c ^ 0xFFFF_FFFF
}

#[cfg(test)]
mod tests {
    use super::*;
    #[test]
    fn flat_tree_basics() {
        assert_eq!(depth(0), 0);
        assert_eq!(depth(1), 1);
        assert_eq!(depth(3), 2);
        assert_eq!(parent(0), 1);
        assert_eq!(parent(2), 1);
        assert_eq!(parent(1), 3);
        assert_eq!(parent(5), 3);
        assert_eq!(sibling(0), 2);
        assert_eq!(sibling(1), 5);
        assert_eq!(left_span(3), 0);
        assert_eq!(right_span(3), 6);
        assert_eq!(full_roots(10), vec![7, 17]);
        assert_eq!(full_roots(5), vec![3, 8]);
        assert_eq!(full_roots(7), vec![3, 9, 12]);
        assert_eq!(crc32(b"123456789"), 0xCBF43926);
    }
}
