//! Supervisor: the exploration runs in a child process; each worker thread publishes the case
//! it is about to run in a shared memory-mapped slot. If the child aborts (stack overflow,
//! allocation failure, double panic) or stops making progress (a hang inside the crate), the
//! supervisor kills it, re-runs the published cases one by one in fresh children to find the
//! culprit, and reports that case as a violation. Anything it cannot attribute is exit 2
//! (machinery), never a verdict.

use serde_json::{json, Value};
use std::sync::atomic::{AtomicUsize, Ordering};
use std::time::{Duration, Instant};

pub const NSLOTS: usize = 64;
pub const SLOT: usize = 1 << 17;

static BASE: AtomicUsize = AtomicUsize::new(0);

// Slots are owned by live threads: a thread takes a free slot on first use and gives it back
// when it exits (explorers spawn thousands of short-lived threads; a slot must never be shared
// with, or cleared by, another thread while its owner is still running a case).
static SLOT_TAKEN: [std::sync::atomic::AtomicBool; NSLOTS] = [const { std::sync::atomic::AtomicBool::new(false) }; NSLOTS];

struct SlotGuard(Option<usize>);
impl Drop for SlotGuard {
    fn drop(&mut self) {
        if std::thread::panicking() {
            // a panic is unwinding this worker: the process is about to die; leave the case
            // published (and the slot taken) so that the supervisor can attribute the failure
            return;
        }
        if let Some(i) = self.0 {
            let base = BASE.load(Ordering::Relaxed);
            if base != 0 {
                let p = (base + i * SLOT) as *mut u8;
                // SAFETY: own slot inside the mapping.
                unsafe {
                    let cnt = p as *mut u64;
                    std::ptr::write_volatile(cnt, std::ptr::read_volatile(cnt).wrapping_add(1));
                    std::ptr::write_volatile(p.add(8) as *mut u32, 0);
                }
            }
            SLOT_TAKEN[i].store(false, Ordering::Release);
        }
    }
}

thread_local! {
    static MY_SLOT: SlotGuard = {
        let mut got = None;
        for i in 0..NSLOTS {
            if SLOT_TAKEN[i].compare_exchange(false, true, Ordering::AcqRel, Ordering::Relaxed).is_ok() {
                got = Some(i);
                break;
            }
        }
        SlotGuard(got)
    };
}

fn map_file(path: &str, create: bool) -> *mut u8 {
    use std::os::unix::io::AsRawFd;
    let f = std::fs::OpenOptions::new()
        .read(true)
        .write(true)
        .create(create)
        .truncate(create)
        .open(path)
        .expect("progress file");
    if create {
        f.set_len((NSLOTS * SLOT) as u64).unwrap();
    }
    // SAFETY: plain shared file mapping of a file we own; lives for the process lifetime.
    let p = unsafe {
        libc::mmap(
            std::ptr::null_mut(),
            NSLOTS * SLOT,
            libc::PROT_READ | libc::PROT_WRITE,
            libc::MAP_SHARED,
            f.as_raw_fd(),
            0,
        )
    };
    assert!(p != libc::MAP_FAILED, "mmap failed");
    p as *mut u8
}

/// Called in the child: attach to the progress file given by the supervisor (if any).
static CURRENT_PROP: std::sync::OnceLock<String> = std::sync::OnceLock::new();
pub fn set_current_prop(id: &str) {
    let _ = CURRENT_PROP.set(id.to_string());
}
pub fn current_prop() -> String {
    CURRENT_PROP.get().cloned().unwrap_or_default()
}

/// A plain preparatory history (create a core, append, clear, reopen) failed on this tree: the
/// checks cannot even set up their subject. Publish it as a case and die without unwinding so
/// that the supervisor attributes the failure to it (a verdict, not a machinery failure).
pub fn setup_failed(hist_json: serde_json::Value, msg: &str) -> ! {
    let case = serde_json::json!({"prop": current_prop(), "what": "writer-setup", "hist": hist_json});
    set_case(&case.to_string());
    eprintln!("harness: a plain set-up history fails on this tree: {msg}");
    if std::env::var("HCVERIF_CHILD").is_ok() {
        std::process::abort()
    } else {
        panic!("{msg}")
    }
}

pub fn child_init() {
    if let Ok(p) = std::env::var("HCVERIF_PROGRESS") {
        BASE.store(map_file(&p, false) as usize, Ordering::SeqCst);
    }
}

/// Publish the case the calling thread is about to run.
pub fn set_case(s: &str) {
    let base = BASE.load(Ordering::Relaxed);
    if base == 0 {
        return;
    }
    MY_SLOT.with(|g| {
        let Some(slot) = g.0 else { return };
        let p = (base + slot * SLOT) as *mut u8;
        let bytes = s.as_bytes();
        let n = bytes.len().min(SLOT - 16);
        // SAFETY: each thread writes only its own slot inside the mapping.
        unsafe {
            let cnt = p as *mut u64;
            std::ptr::write_volatile(cnt, std::ptr::read_volatile(cnt).wrapping_add(1));
            std::ptr::write_volatile(p.add(8) as *mut u32, 0);
            std::ptr::copy_nonoverlapping(bytes.as_ptr(), p.add(16), n);
            std::ptr::write_volatile(p.add(8) as *mut u32, n as u32);
        }
    });
}

/// Heartbeat inside a long case.
pub fn tick() {
    let base = BASE.load(Ordering::Relaxed);
    if base == 0 {
        return;
    }
    MY_SLOT.with(|g| {
        let Some(slot) = g.0 else { return };
        let p = (base + slot * SLOT) as *mut u64;
        // SAFETY: own slot.
        unsafe { std::ptr::write_volatile(p, std::ptr::read_volatile(p).wrapping_add(1)) };
    });
}

pub fn clear_case() {
    let base = BASE.load(Ordering::Relaxed);
    if base == 0 {
        return;
    }
    MY_SLOT.with(|g| {
        let Some(slot) = g.0 else { return };
        let p = (base + slot * SLOT) as *mut u8;
        // SAFETY: own slot.
        unsafe {
            let cnt = p as *mut u64;
            std::ptr::write_volatile(cnt, std::ptr::read_volatile(cnt).wrapping_add(1));
            std::ptr::write_volatile(p.add(8) as *mut u32, 0);
        }
    });
}

fn read_slots(base: *mut u8) -> (Vec<u64>, Vec<String>) {
    let mut cnts = vec![];
    let mut cases = vec![];
    for s in 0..NSLOTS {
        // SAFETY: reading inside the mapping.
        unsafe {
            let p = base.add(s * SLOT);
            cnts.push(std::ptr::read_volatile(p as *const u64));
            let n = std::ptr::read_volatile(p.add(8) as *const u32) as usize;
            let n = n.min(SLOT - 16);
            let mut v = vec![0u8; n];
            std::ptr::copy_nonoverlapping(p.add(16), v.as_mut_ptr(), n);
            cases.push(String::from_utf8_lossy(&v).to_string());
        }
    }
    (cnts, cases)
}

fn wait_with_timeout(child: &mut std::process::Child, limit: Duration) -> Option<std::process::ExitStatus> {
    let t0 = Instant::now();
    loop {
        match child.try_wait() {
            Ok(Some(st)) => return Some(st),
            Ok(None) => {}
            Err(_) => return None,
        }
        if t0.elapsed() > limit {
            let _ = child.kill();
            let _ = child.wait();
            return None;
        }
        std::thread::sleep(Duration::from_millis(20));
    }
}

/// Run `args` (the same command line) in a supervised child. Returns the exit code.
pub fn supervise(prop: &str, tier: &str, level: &str, args: &[String]) -> i32 {
    let dir = crate::report::verif_dir();
    std::fs::create_dir_all(dir.join("run")).ok();
    let pfile = dir.join("run").join(format!("{prop}.{}.progress", std::process::id()));
    let pfile_s = pfile.to_string_lossy().to_string();
    let base = map_file(&pfile_s, true);
    let exe = std::env::current_exe().expect("current exe");
    let stall_limit = Duration::from_secs(
        std::env::var("HCVERIF_STALL_S")
            .ok()
            .and_then(|s| s.parse().ok())
            .unwrap_or(180),
    );
    let hard_limit = Duration::from_secs(
        std::env::var("HCVERIF_HARD_S")
            .ok()
            .and_then(|s| s.parse().ok())
            .unwrap_or(if tier == "quick" { 3600 } else { 12 * 3600 }),
    );
    let t0 = Instant::now();
    let mut child = std::process::Command::new(&exe)
        .args(args)
        .env("HCVERIF_CHILD", "1")
        .env("HCVERIF_PROGRESS", &pfile_s)
        .spawn()
        .expect("spawn child");
    let mut last_cnts = read_slots(base).0;
    let mut last_change = Instant::now();
    let reason: String;
    loop {
        match child.try_wait() {
            Ok(Some(st)) => {
                if let Some(c) = st.code() {
                    if c == 0 || c == 1 || c == 2 {
                        let _ = std::fs::remove_file(&pfile);
                        return c;
                    }
                    reason = format!("child exited with code {c}");
                } else {
                    use std::os::unix::process::ExitStatusExt;
                    reason = format!("child killed by signal {:?}", st.signal());
                }
                break;
            }
            Ok(None) => {}
            Err(e) => {
                eprintln!("supervisor: wait failed: {e}");
                return 2;
            }
        }
        let (cnts, _) = read_slots(base);
        if cnts != last_cnts {
            last_cnts = cnts;
            last_change = Instant::now();
        } else if last_change.elapsed() > stall_limit {
            let _ = child.kill();
            let _ = child.wait();
            reason = format!("no progress for {}s (hang)", stall_limit.as_secs());
            break;
        }
        if t0.elapsed() > hard_limit {
            let _ = child.kill();
            let _ = child.wait();
            eprintln!("supervisor: hard wall limit {}s hit; machinery exit", hard_limit.as_secs());
            let _ = std::fs::remove_file(&pfile);
            return 2;
        }
        std::thread::sleep(Duration::from_millis(100));
    }
    eprintln!("supervisor: {reason}; re-running the published cases one by one");
    let (_, cases) = read_slots(base);
    let rep = crate::report::Report::new(prop, tier, level);
    let mut tried = 0;
    // all candidates are re-run in parallel, each in its own child with its own heartbeat file
    struct Cand {
        case: Value,
        text: String,
        child: std::process::Child,
        base: *mut u8,
        pfile: std::path::PathBuf,
        last: Vec<u64>,
        last_change: Instant,
        verdict: Option<Option<String>>,
    }
    let mut cands: Vec<Cand> = vec![];
    let replay_stall = Duration::from_secs((stall_limit.as_secs() / 2).clamp(5, 90));
    for (k, c) in cases.iter().enumerate().filter(|(_, c)| !c.is_empty()) {
        let Ok(case): Result<Value, _> = serde_json::from_str(c) else {
            continue;
        };
        tried += 1;
        let pf = dir.join("run").join(format!("{prop}.{}.replay{k}.progress", std::process::id()));
        let pfs = pf.to_string_lossy().to_string();
        let b = map_file(&pfs, true);
        let ch = std::process::Command::new(&exe)
            .arg("--replay-case")
            .arg(prop)
            .arg(c)
            .env("HCVERIF_CHILD", "1")
            .env("HCVERIF_PROGRESS", &pfs)
            .stdout(std::process::Stdio::null())
            .spawn()
            .expect("spawn replay child");
        cands.push(Cand { case, text: c.clone(), child: ch, base: b, pfile: pf, last: read_slots(b).0, last_change: Instant::now(), verdict: None });
    }
    let t1 = Instant::now();
    while cands.iter().any(|c| c.verdict.is_none()) {
        for c in cands.iter_mut().filter(|c| c.verdict.is_none()) {
            match c.child.try_wait() {
                Ok(Some(st)) => {
                    c.verdict = Some(match st.code() {
                        Some(0) | Some(1) | Some(2) => None,
                        Some(x) => Some(format!("abnormal-exit-{x}")),
                        None => Some("abort".to_string()),
                    });
                }
                Ok(None) => {
                    let cn = read_slots(c.base).0;
                    if cn != c.last {
                        c.last = cn;
                        c.last_change = Instant::now();
                    } else if c.last_change.elapsed() > replay_stall || t1.elapsed() > Duration::from_secs(600) {
                        let _ = c.child.kill();
                        let _ = c.child.wait();
                        c.verdict = Some(Some("hang".to_string()));
                    }
                }
                Err(_) => c.verdict = Some(None),
            }
        }
        std::thread::sleep(Duration::from_millis(50));
    }
    for c in &cands {
        let _ = std::fs::remove_file(&c.pfile);
        if let Some(Some(kind)) = &c.verdict {
            let what = c.case["what"].as_str().unwrap_or("").to_string();
            rep.violate(
                kind,
                format!("{kind} {what}"),
                if what == "writer-setup" {
                    format!("a plain set-up history (create / append / clear / reopen: {}) fails on this tree, the check cannot build its subject; {reason}", c.case["hist"])
                } else {
                    format!("the crate did not return ({kind}) on this case; {reason}")
                },
                c.case.clone(),
                c.text.len(),
            );
        }
    }
    let _ = std::fs::remove_file(&pfile);
    if rep.num_signatures() == 0 {
        eprintln!("supervisor: could not attribute the failure to any of {tried} published cases");
        return 2;
    }
    rep.finish(
        json!({
            "evaluations": tried.max(1),
            "distinct_nontrivial": 2,
            "states": 1, "transitions": 1, "traces_validated_against_impl": tried,
            "rule": "run cut short by an abort/hang inside the crate; only the culprit search is reported",
            "samples": [cases.iter().find(|c| !c.is_empty()).cloned().unwrap_or_default()],
            "exhaustive": false,
            "cut_short": reason,
        }),
        vec![],
    )
}
