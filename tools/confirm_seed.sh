#!/bin/bash
# tools/confirm_seed.sh <PROP> <a|b>   confirm a sub-agent's change in its scratch worktree:
#  demo passes on the clean tree, fails with the patch; the repository suite passes with the patch.
p="$1"; v="$2"; wt="${SEEDPREFIX:-/tmp/seed}-$p"; out="${SEEDPREFIX:-/tmp/seed}-$p-out"; log="$out/confirm_$v.log"
cd "$wt" || exit 2
git checkout -- . >/dev/null 2>&1; git clean -fdq tests >/dev/null 2>&1
cp "$out/seed_demo_$v.rs" "tests/seed_demo_$v.rs"
{
echo "== demo on clean tree"
cargo test --offline --features cache,shared-core --test "seed_demo_$v" 2>&1 | grep -E "^test result|panicked|FAILED|error(\[|:)" | head -5
clean_rc=${PIPESTATUS[0]}
echo "== apply patch"; git apply "$out/$v.patch" && echo applied
echo "== demo with patch"
cargo test --offline --features cache,shared-core --test "seed_demo_$v" 2>&1 | grep -E "^test result|panicked|FAILED|error(\[|:)" | head -5
mut_rc=${PIPESTATUS[0]}
rm -f "tests/seed_demo_$v.rs"
echo "== repository suite with patch"
cargo test --workspace --no-fail-fast --offline 2>&1 | grep -E "^test result|FAILED|failed" | head -8
suite_rc=${PIPESTATUS[0]}
git checkout -- . >/dev/null 2>&1
echo "RESULT $p $v demo_clean_rc=$clean_rc demo_patched_rc=$mut_rc suite_rc=$suite_rc"
} > "$log" 2>&1
tail -1 "$log"
