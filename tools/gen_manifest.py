#!/usr/bin/env python3
"""Regenerates /verif/MANIFEST.json from the table below (keeps the interface file valid and
in one place). Run: python3 tools/gen_manifest.py"""
import json, os, sys
HERE = os.path.dirname(os.path.dirname(os.path.abspath(__file__)))

CHECKS = {
 "C01": dict(cat="model_checking", ref="DESIGN.md §2 C01",
   technique="stateless bounded-exhaustive exploration of op sequences on the real crate (E1) against a list model",
   text="Every operation sequence over the append/batch/clear/reopen alphabets up to the stated depths (plus deep reduced-alphabet, seeded and page-scale families) is executed on the real crate over the journaling backend; after every step info/has/get on all indices are compared with a list model. Exhaustive within the bounds in the evidence; nothing is sampled.",
   note="Trusted: the harness's list model and journaling backend (the latter validated against the stock backends by C14); block contents limited to index-dependent patterns of sizes 0-3 (1 byte at page scale)."),
 "C02": dict(cat="fault_enumeration", ref="DESIGN.md §2 C02",
   technique="exhaustive crash-point enumeration (every journal prefix of the last call of every bounded history) on the real crate, before-or-after oracle",
   text="For every history over the alphabets up to the stated depths (writer histories incl. make_read_only; replica histories of well-formed proof applications) and every prefix of the mutating storage operations issued by its last call, the crate is reopened on the crashed image: open must succeed, info/has/get must equal the list/replica model before or after the call (exactly before at 0 operations, exactly after at all), and every continuation of appends/clears/reopens must again satisfy the C01 oracle; thorough adds a second crash inside the next call.",
   note="Fault model as in the statement: each storage operation atomic and persisted in issue order. Trusted: journaling backend (validated by C14), list model."),
 "C07": dict(cat="fault_enumeration", ref="DESIGN.md §2 C07",
   technique="exhaustive torn-write enumeration (byte cuts of the interrupted write at every crash point of every bounded history) on the real crate",
   text="For every (history, crash point) whose next operation is a write: every proper byte prefix for writes <= 64 bytes, all framing-boundary cuts otherwise (thorough: every byte cut of every oplog write). Same oracle as C02: open succeeds, before-or-after, usable afterwards.",
   note="The torn prefix overwrites in place and extends the file only as far as it reaches; earlier operations intact. Trusted: journaling backend, list model."),
 "C10": dict(cat="fault_enumeration", ref="DESIGN.md §2 C10",
   technique="exhaustive single I/O-fault injection (every storage operation of the last call, reads included) on the real crate",
   text="For every history up to the stated depths and every storage operation (write, delete, truncate, read, length query) issued by its last call (open included), that operation fails once with an I/O error: the call must return Err (no Ok, no panic), and reopening must show the before-or-after state and stay usable.",
   note="One fault per execution; the failed operation is not applied. Trusted: journaling backend, list model."),
 "C03": dict(cat="model_checking", ref="DESIGN.md §2 C03",
   technique="explicit-state BFS to saturation over exact replica storage images, transitions executed by the real writer and replica (E2), plus live request sequences from saturated states",
   text="For each writer log shape (1..N blocks, singles/batch/mixed builds, cleared-block variants, growth rounds) all replica states reachable by well-formed requests are enumerated to saturation (unbounded request-order depth): from every state every upgrade target, block, hash-of-full-node and seek request is proved by the real writer and applied by the real replica. Oracle: a proof is returned (none iff the block is cleared on the writer), it is accepted, and replica info/has/get equal the replica model; the complete replica must be reachable. Live walks cover non-reopened sequences.",
   note="State = replica storage image after close (exact, no abstraction). Trusted: replica model, reference flat-tree arithmetic used to classify requests. Hash requests for a node straddling the replica length together with an upgrade, and seek+block requests whose byte lies outside the requested subtree, are not owed a proof (if one is produced it must be accepted)."),
 "C08": dict(cat="exploration", ref="DESIGN.md §2 C08",
   technique="bounded-exhaustive exploration of op sequences, crash points and replica fetch orders on the real crate with has()/contiguous_length compared against a set model",
   text="has(i) for every index below length plus boundary indices in the following bitfield pages, and info().contiguous_length, are compared with the model (i in held set; smallest missing index) in every state of: all small writer histories and their crash images, replica saturations, page-scale macro histories (up to 70 000 one-byte blocks, clears straddling 8192/32768/65536, reopen, crash recovery) and sparse replicas of a 70 000-block writer fetching far-apart indices in every order with reopen after each fetch.",
   note="Page-scale flushes with >200 storage operations are crash-tested at the first/last 24 operations and ~48 evenly spaced points (stated in the evidence). Trusted: set model, journaling backend."),
 "C04": dict(cat="exploration", ref="DESIGN.md §2 C04",
   technique="exhaustive single-field alteration and forgery of every honest proof in every saturated replica state, applied to the real replica (E2 x E4)",
   text="Every replica state reachable by honest replication (C03 saturation) x every honest proof enabled there x every single-field alteration (bit flips in value, every node hash and the signature; +-1 on fork, indices, sizes, seek bytes, upgrade start/length; node drop/duplicate/swap/insert at every position; section removal) plus forgeries built with the independent scheme reference (other-key signatures, foreign writer, substituted block with recomputed ancestors, genuine signature for another length). Oracle: the classes the statement names must be refused; a refused proof leaves all observations (live and after reopen) unchanged; after any accepted proof held blocks equal the writer's, the length pair is one the writer signed and honest replication still completes; never a panic.",
   note="Sizes of the bottom node of hash-only and seek sections are excluded as in the statement. Numeric alterations are +-1. Trusted: independent BLAKE2b/Ed25519 scheme reference, replica model."),
 "C05": dict(cat="exploration", ref="DESIGN.md §2 C05",
   technique="bounded-exhaustive exploration of append/batch/reopen mixes on the real crate, differential against an independent BLAKE2b/Ed25519/flat-tree scheme reference",
   text="For all mixes of single/batch appends and reopens up to the depth (block sizes rotating through 0..5000 bytes, log lengths 0..17 quick / 0..33 thorough plus 8193 and 32769), every full tree node read from the files by the independent layout reader, the root hash, the stored signature, and every node and signature carried in block/hash/upgrade proofs are compared with the reference implementation of the Hypercore v10 scheme.",
   note="Trusted base: blake2 and ed25519-dalek primitives, the harness's own flat-tree arithmetic and CRC-32; reference anchored to JavaScript through the golden tree-file hashes of C06."),
 "C06": dict(cat="exploration", ref="DESIGN.md §2 C06",
   technique="bounded-exhaustive exploration with an independent JS-layout reader (all explored histories) and reference encoder (synthetic storages), anchored by the 20 golden interop hashes",
   text="(a) the five interop steps reproduce all 20 golden SHA-256 file hashes and the independent reader decodes those bytes to the scenario state; (b) after every step of every explored writer and replica history (pending entries of all five kinds) the independent reader reconstructs key, writability, fork, length, byte length, present set and block bytes equal to the model/API; (c) ~1500 (quick) synthetic JS-valid storages - header in either slot with every bit pattern, pending append/clear/block-only/upgrade-only/nodes-only entries, finished and unfinished atomic batches, stale entries, zero padding - are opened by the crate to the layout-defined state and remain usable. A hang or panic while opening is a violation (supervisor watchdog).",
   note="User-data sections are never produced by the crate and treated as empty. JS-written oplogs are at least 8192 bytes long (every header flush truncates to the entry offset); shorter files are not generated. Trusted: the reference reader/encoder, anchored to JavaScript by the golden hashes."),
 "C09": dict(cat="exploration", ref="DESIGN.md §2 C09",
   technique="exhaustive product of boundary-value requests and structurally arbitrary proofs against the real crate under catch_unwind and a hang/abort watchdog",
   text="Per core (empty, 1..10 blocks, cleared blocks, reopened, sparse replica states from the C03 saturation): the product of block/hash/seek/upgrade request fields over boundary values around 0, length, 2*length and 2^39..2^40 goes through create_proof; arbitrary proofs vary one section exhaustively (indices, node lists drawn from real/shifted/huge/zero-hash nodes, values, upgrade ranges, signature lengths) with the other sections absent or honest and go through verify_and_apply_proof on a fresh instance. Every call must return a value or an error - a panic, abort or hang (supervisor watchdog) is a violation - and info/has/get must answer as before unless the proof was accepted.",
   note="Numeric fields stay below 2^40 as in the statement. Overflow checks are enabled for the hypercore crate itself. The C04 sweep covers the honest-proof alteration set and reports panics too."),
 "C11": dict(cat="exploration", ref="DESIGN.md §2 C11",
   technique="bounded-exhaustive input enumeration of wire messages and all their strict prefixes, differential against an independent compact-encoding reference",
   text="Every value of Node, RequestBlock/Seek/Upgrade and DataBlock/Hash/Seek/Upgrade with integers at all varint boundaries (0,252,253,65535,65536,2^32-1,2^32,2^64-1), byte strings of every length 0..300 and node lists of every length 0..8: encoded_size equals the bytes written and the reference length, the bytes equal the reference encoding, decoding returns the original value with nothing left over, and every strict prefix decodes to an error (never a panic).",
   note="Oracle: harness/src/cenc.rs, written from the compact-encoding rules and lib/messages.js field order. Dependencies are built without overflow checks (as in a release build): in a debug build flat-tree's parent() overflows for node indices >= 2^63-1, which is outside what this check claims."),
 "C12": dict(cat="fault_enumeration", ref="DESIGN.md §2 C12",
   technique="bounded-exhaustive exploration of histories with make_read_only plus exhaustive crash/torn-write enumeration inside every make_read_only call, full-file scans for the secret seed",
   text="For every history over append/batch/clear/reopen/make_read_only alphabets up to the depth: call results, info/has/get vs the model, open(true) on the image (stored public key and writability, second make_read_only reports false, append is NotWritable), a scan of all four files for the 32-byte secret seed in every state after make_read_only, and no storage operation at all for refused appends; every crash point and torn cut inside every make_read_only call must recover a writable-or-read-only core with all data and stay usable; replicas: make_read_only false, appends refused, nothing written; key_pair + open is rejected by the builder.",
   note="The secret is the 32-byte Ed25519 seed (the header stores seed||public). Trusted: list model, journaling backend."),
 "C13": dict(cat="exploration", ref="DESIGN.md §2 C13",
   technique="bounded-exhaustive exploration of op sequences on the real crate with a subscriber attached before every call and all receivers drained after every call",
   text="Every sequence of appends, empty batches, clears, gets of held / missing / out-of-range indices and reopens on a writer (depth 5 quick / 6 thorough), and of honest syncs, refused (altered) proofs, gets and reopens on replicas, with a new subscriber attached before every call: each subscriber attached before a call must receive exactly the events the statement prescribes for it (upgrade + have range for appends, upgrade iff upgrade / have iff block for accepted proofs, one get event for a missing read, nothing for refused/failed/no-op calls; clears may only announce drops inside the range), all subscribers identically.",
   note="Receivers are drained after every call, so fewer than 32 events are ever undrained. create_proof is outside the alphabet; events on the serving core during a sync are ignored."),
 "C14": dict(cat="exploration", ref="DESIGN.md §2 C14",
   technique="bounded-exhaustive differential execution of every history under 3 storage backends x 3 node-cache settings on the real crate, comparing observation transcripts and file bytes",
   text="Every history of the listed families (small and 3/5000/20000-byte blocks, clears, reopen, make_read_only, replica request orders) runs under JournalStore, RandomAccessMemory and RandomAccessDisk (tmpfs), each with the node cache off, default and limited to ~2 nodes: all call results and info/has/get after every call must be identical in all runs and the four files byte-identical (read back in full). Deeper families run on the instrumented backend with the three cache settings only (cache coherence across multi-round reads). The thorough tier repeats everything in a second build without the sparse feature.",
   note="This is also the validation of the journaling backend used by every other check. Disk files live on /dev/shm (fallback /verif/run)."),
 "C15": dict(cat="model_checking", ref="DESIGN.md §2 C15",
   technique="stateless exhaustive exploration of cooperative schedules of the real SharedCore under a hand-rolled deterministic executor (preemption-bounded for the largest configurations), linearizability checked against all sequential orders run on the real crate",
   text="For every configuration of 2-4 tasks x 1-3 calls over {append, append_batch, get, has, info, missing_nodes, create_proof, clear via the public mutex} on a writer and {verify_and_apply_proof of conflicting pre-built proofs, get, info, missing_nodes} on a replica, every schedule (scheduling points: task start, every storage operation, every contended lock, a yield between a task's calls) is executed on the real SharedCore over the yielding backend; the invoke/return history of each execution must equal some sequential order of the calls consistent with real-time order, obtained by running that order on a plain Hypercore, final state included; no deadlock, no panic. Both virtual-clock regimes (async-lock's 500us starvation switch never / always taken).",
   note="Cooperative scheduling at await granularity suffices because the crate forbids unsafe code and shares state only through async_lock::Mutex (its atomics under true parallelism are trusted). The 3x2 and 4x1 families are explored up to a stated preemption bound; everything else without bound. Wall clock owned via a clock_gettime override."),
}

PENDING = {
}

def main():
    checks = []
    for pid in sorted(CHECKS):
        c = CHECKS[pid]
        checks.append({
            "property_id": pid,
            "quick_cmd": f"./check {pid} quick",
            "thorough_cmd": f"./check {pid} thorough",
            "evidence_file": f"/verif/evidence/{pid}.json",
            "replay_cmd_template": "./check --replay {path}",
            "engine": "hcverif",
            "level_claimed": {"category": c["cat"], "text": c["text"], "design_ref": c["ref"]},
            "level_note": c["note"],
            "technique": c["technique"],
        })
    props = [json.loads(l)["id"] for l in open(os.path.join(HERE, "properties.jsonl"))]
    na = [{"property_id": p, "reason": PENDING.get(p, "check not built yet in this session (planned: see DESIGN.md §2); not claimed until it runs")}
          for p in props if p not in CHECKS]
    m = {
      "version": 1,
      "setup_cmd": "./check --build",
      "hooks": {
        "guard": "hypercore_verif",
        "enable": "none needed: every seam used is public API (Storage::open callback, builder, Proof fields, event_subscribe, SharedCore.0); the harness links /repo as a path dependency with features tokio,sparse,replication,shared-core,cache",
        "baseline_off_cmd": "cd /repo && cargo test --workspace --no-fail-fast --offline",
        "source_commits": [],
        "add_only": True,
      },
      "engines": [
        {"name": "hcverif", "path": "/verif/harness", "serves_properties": sorted(CHECKS),
         "kind_free_text": "Rust binary linking the real hypercore crate from /repo: journaling RandomAccess backend (crash/torn/fault/yield injection), bounded-exhaustive explorers E1-E5, reference models; supervised child process with hang/abort attribution"},
      ],
      "checks": checks,
      "not_applicable": na,
      "notes": "All checks: ./check <ID> quick|thorough; exit 0 = held on everything explored, 1 = VIOLATION lines, 2 = machinery failure (never a verdict). known_findings.json lists recorded findings and fixed defects.",
    }
    json.dump(m, open(os.path.join(HERE, "MANIFEST.json"), "w"), indent=1)
    print("MANIFEST.json:", len(checks), "checks,", len(na), "not_applicable")

main()
