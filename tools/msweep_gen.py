#!/usr/bin/env python3
"""Generate small single-line mutants of the hypercore sources. Output: /tmp/msweep/mutants/<n>.diff + index.json"""
import re, random, os, json, subprocess
random.seed(20260923)
REPO='/repo'
FILES=['src/bitfield/fixed.rs','src/bitfield/dynamic.rs','src/oplog/mod.rs','src/oplog/entry.rs','src/oplog/header.rs','src/core.rs','src/tree/merkle_tree.rs','src/tree/merkle_tree_changeset.rs','src/data/mod.rs','src/storage/mod.rs']
RULES=[
 (r'<=', '<'), (r'>=', '>'), (r'(?<![<>=!-])<(?![<=])(?= )', '<='), (r'(?<![<>=!-])>(?![>=])(?= )', '>='),
 (r'==', '!='), (r'!=', '=='), (r'&&', '||'), (r'\|\|', '&&'),
 (r'\+ 1\b', '+ 2'), (r'\+ 1\b', ''), (r'- 1\b', '- 2'), (r'- 1\b', ''),
 (r' \+ ', ' - '), (r' - ', ' + '), (r' \* 2\b', ' * 4'), (r' / 2\b', ' / 4'), (r' / 2\b', ''),
 (r'\b0\.\.', '1..'), (r'\.\.=', '..'), (r'(?<=\w)\.\.(?=[\w(])', '..='),
 (r'\bmin\(', 'max('), (r'\bmax\(', 'min('), (r'\btrue\b', 'false'), (r'\bfalse\b', 'true'),
 (r'if !', 'if '), (r'\+=', '-='), (r'-=', '+='), (r'& \(', '| ('), (r'<< ', '>> '), (r'>> ', '<< '),
]
muts=[]
for f in FILES:
    lines=open(os.path.join(REPO,f)).read().split('\n')
    # cut test module
    end=len(lines)
    for i,l in enumerate(lines):
        if l.strip().startswith('#[cfg(test)]') and i+1<len(lines) and 'mod ' in lines[i+1]:
            end=i; break
    for i in range(end):
        l=lines[i]; st=l.strip()
        if not st or st.startswith('//') or st.startswith('#[') or 'context:' in st or 'format!' in st or 'expect(' in st or st.startswith('use ') or 'debug_assert' in st or 'tracing' in st or 'instrument' in st:
            continue
        code=l.split('//')[0]
        for (pat,rep) in RULES:
            for m in re.finditer(pat, code):
                # skip generics / arrows / lifetimes
                ctx=code[max(0,m.start()-2):m.end()+2]
                if '->' in ctx or '=>' in ctx or '::<' in ctx: continue
                if pat in (r'(?<![<>=!-])<(?![<=])(?= )', r'(?<![<>=!-])>(?![>=])(?= )') and re.search(r'(Vec|Option|Result|Box|Either|IntMap|impl|dyn|fn|&|:)\s*$', code[:m.start()]): continue
                new=code[:m.start()]+rep+code[m.end():]
                if new==code: continue
                muts.append((f,i,l,new+l[len(code):] if False else new))
random.shuffle(muts)
# stratify: cap per file
cap={'src/bitfield/fixed.rs':14,'src/bitfield/dynamic.rs':16,'src/oplog/mod.rs':16,'src/oplog/entry.rs':5,'src/oplog/header.rs':5,'src/core.rs':20,'src/tree/merkle_tree.rs':30,'src/tree/merkle_tree_changeset.rs':6,'src/data/mod.rs':4,'src/storage/mod.rs':8}
cnt={}; seenline=set(); sel=[]
for (f,i,old,new) in muts:
    if cnt.get(f,0)>=cap[f]: continue
    if (f,i) in seenline: continue
    seenline.add((f,i)); cnt[f]=cnt.get(f,0)+1; sel.append((f,i,old,new))
os.makedirs('/tmp/msweep/mutants',exist_ok=True)
idx=[]
for n,(f,i,old,new) in enumerate(sel):
    idx.append({'n':n,'file':f,'line':i+1,'old':old.strip(),'new':new.strip()})
    json.dump({'file':f,'line':i,'new':new}, open(f'/tmp/msweep/mutants/{n}.json','w'))
json.dump(idx, open('/tmp/msweep/index.json','w'), indent=1)
print(len(muts),'candidates;',len(sel),'selected'); 
for e in idx[:12]: print(e)
