#!/bin/bash
# run.sh <from> <to>
V=/verif; wt=/tmp/msweep-wt; hdir=/tmp/msweep-harness; tgt=/tmp/msweep-target
git -C /repo worktree remove --force $wt >/dev/null 2>&1; git -C /repo worktree add --detach $wt HEAD >/dev/null 2>&1 || exit 2
rm -rf $hdir; mkdir -p $hdir
sed -e "s#@HC_REPO@#$wt#" -e 's#@HC_FEATURES@#"tokio", "sparse", "replication", "shared-core", "cache"#' $V/harness/Cargo.toml.in > $hdir/Cargo.toml
cp $V/harness/Cargo.lock $hdir/; ln -s $V/harness/src $hdir/src; ln -s $V/harness/.cargo $hdir/.cargo
for n in $(seq $1 $2); do
  [ -f /tmp/msweep/mutants/$n.json ] || continue
  git -C $wt checkout -- . >/dev/null 2>&1
  python3 - $n <<'PY'
import json,sys
m=json.load(open(f'/tmp/msweep/mutants/{sys.argv[1]}.json'))
p='/tmp/msweep-wt/'+m['file']; L=open(p).read().split('\n'); L[m['line']]=m['new']; open(p,'w').write('\n'.join(L))
PY
  out=/tmp/msweep/out-$n; rm -rf $out; mkdir -p $out; cp $V/known_findings.json $out/
  if ! ( cd $hdir && CARGO_NET_OFFLINE=true CARGO_TARGET_DIR=$tgt cargo build --release --offline --quiet 2> $out/build.log ); then
    echo "{\"n\":$n,\"result\":\"compile-fail\"}" >> /tmp/msweep/results.jsonl; rm -rf $out; continue
  fi
  det=""; 
  for id in C05 C13 C10 C01 C06 C03 C09 C04 C12 C08 C07 C02 C14 C15; do
    HCVERIF_DIR=$out HCVERIF_STALL_S=60 $tgt/release/hcverif $id quick > $out/$id.log 2>&1; rc=$?
    if [ $rc -eq 1 ]; then det=$id; break; fi
    if [ $rc -ne 0 ]; then det="machinery:$id"; break; fi
  done
  if [ -n "$det" ]; then
    first=$(grep -m1 VIOLATION $out/${det#machinery:}.log | cut -c1-260 | sed 's/"/\\"/g')
    echo "{\"n\":$n,\"result\":\"detected\",\"by\":\"$det\",\"first\":\"$first\"}" >> /tmp/msweep/results.jsonl
  else
    ( cd $wt && cargo test --workspace --no-fail-fast --offline > $out/suite.log 2>&1 ); src=$?
    echo "{\"n\":$n,\"result\":\"survived\",\"suite_rc\":$src}" >> /tmp/msweep/results.jsonl
  fi
  rm -rf $out
done
git -C /repo worktree remove --force $wt >/dev/null 2>&1
echo SWEEPDONE >> /tmp/msweep/results.jsonl
