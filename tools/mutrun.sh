#!/bin/bash
# tools/mutrun.sh <name> <patch-or-commit> <ID> [tier]   run one check against a scratch worktree of /repo
# with a patch applied (file) or at a given commit (rev); prints the verdict lines.
set -u
name="$1"; what="$2"; id="$3"; tier="${4:-quick}"
wt="/tmp/hcmut-$name"
git -C /repo worktree remove --force "$wt" >/dev/null 2>&1
if [ -f "$what" ]; then
  what="$(realpath "$what")"
  git -C /repo worktree add --detach "$wt" HEAD >/dev/null 2>&1 || exit 2
  git -C "$wt" apply "$what" || { echo "patch does not apply"; git -C /repo worktree remove --force "$wt"; exit 2; }
else
  git -C /repo worktree add --detach "$wt" "$what" >/dev/null 2>&1 || exit 2
fi
out="/tmp/hcmut-out-$name"
rm -rf "$out"
cd /verif
HC_REPO="$wt" HCVERIF_OUT="$out" ./check "$id" "$tier" 2>&1 | grep -E "VIOLATION|KNOWN|done in|supervisor|check:" | cut -c1-400 | head -${MUT_LINES:-6}
rc=${PIPESTATUS[0]}
git -C /repo worktree remove --force "$wt" >/dev/null 2>&1
rm -rf "$out"
# restore the harness manifest for /repo
HC_REPO=/repo ./check --build >/dev/null 2>&1
exit $rc
