#!/bin/bash
# tools/mutrun.sh <name> <patch-or-rev> <ID> [tier]
# Runs one check against a scratch worktree of /repo with a patch applied (file) or at a given
# commit (rev). Uses a private copy of the harness manifest and a separate target directory
# (/tmp/hcmut-target, builds serialized by a lock), so it never disturbs /verif/harness/Cargo.toml,
# /verif/target or the committed evidence; safe to run several at once.
set -u
name="$1"; what="$2"; id="$3"; tier="${4:-quick}"
V=/verif
wt="/tmp/hcmut-$name"
git -C /repo worktree remove --force "$wt" >/dev/null 2>&1
if [ -f "$what" ]; then
  what="$(realpath "$what")"
  git -C /repo worktree add --detach "$wt" HEAD >/dev/null 2>&1 || exit 2
  git -C "$wt" apply "$what" || { echo "patch does not apply"; git -C /repo worktree remove --force "$wt"; exit 2; }
else
  git -C /repo worktree add --detach "$wt" "$what" >/dev/null 2>&1 || exit 2
fi
out="/tmp/hcmut-out-$name"; rm -rf "$out"; mkdir -p "$out"; cp $V/known_findings.json "$out/"
hdir="/tmp/hcmut-harness-$name"; rm -rf "$hdir"; mkdir -p "$hdir"
sed -e "s#@HC_REPO@#$wt#" -e 's#@HC_FEATURES@#"tokio", "sparse", "replication", "shared-core", "cache"#' $V/harness/Cargo.toml.in > "$hdir/Cargo.toml"
cp $V/harness/Cargo.lock "$hdir/"; ln -s $V/harness/src "$hdir/src"; ln -s $V/harness/.cargo "$hdir/.cargo"
bin="/tmp/hcmut-bin-$name"
(
  flock 9
  cd "$hdir" && CARGO_NET_OFFLINE=true CARGO_TARGET_DIR=/tmp/hcmut-target cargo build --release --offline --quiet 2> "$out/build.log" && cp /tmp/hcmut-target/release/hcverif "$bin"
) 9>/tmp/hcmut.lock
if [ ! -x "$bin" ]; then echo "check: harness build failed"; tail -5 "$out/build.log"; rc=2; else
  HCVERIF_DIR="$out" "$bin" "$id" "$tier" 2>&1 | grep -E "VIOLATION|KNOWN|done in|supervisor|check:" | cut -c1-400 | head -${MUT_LINES:-6}
  rc=${PIPESTATUS[0]}
fi
git -C /repo worktree remove --force "$wt" >/dev/null 2>&1
rm -rf "$hdir"; [ -n "${MUT_KEEP:-}" ] || rm -rf "$out" "$bin"
exit $rc
