#!/usr/bin/env python3
"""tools/seed_meta.py <seed-id> <property> "<needs>" <check1,check2,...>
Runs the listed checks (quick) against the seeded patch via tools/mutrun.sh and writes seeded/<id>/meta.json."""
import sys, subprocess, json, os, re
sid, prop, needs, checks = sys.argv[1], sys.argv[2], sys.argv[3], sys.argv[4].split(',')
base = os.path.dirname(os.path.dirname(os.path.abspath(__file__)))
d = os.path.join(base, 'seeded', sid)
results = {}
for c in checks:
    env = dict(os.environ, MUT_LINES='3')
    out = subprocess.run([os.path.join(base, 'tools/mutrun.sh'), sid, os.path.join(d, 'patch.diff'), c, 'quick'], capture_output=True, text=True, env=env).stdout
    viol = [l for l in out.splitlines() if l.startswith('VIOLATION')]
    first = ''
    if viol:
        m = re.search(r'clause=(\S+) sig=\[([^\]]*)\] :: (.*)', viol[0])
        first = f"{m.group(1)} [{m.group(2)}] {m.group(3)[:220]}" if m else viol[0][:300]
    results[c] = {"detected": bool(viol), "first_violation": first}
    print(sid, c, 'DETECTED' if viol else 'missed')
confirm = open(os.path.join(d, 'confirm.log')).read().strip().splitlines()[-1] if os.path.exists(os.path.join(d, 'confirm.log')) else ''
meta = {
  "id": sid,
  "breaks_property": prop,
  "origin": "written by an independent sub-agent that saw only the property text and its own scratch worktree",
  "needs_to_manifest": needs,
  "confirmed_by_me": {"how": "tools/confirm_seed.sh in the scratch worktree: demo passes on the clean tree, fails with the patch; cargo test --workspace --no-fail-fast --offline passes with the patch", "result_line": confirm},
  "checks_run_quick_tier": results,
}
json.dump(meta, open(os.path.join(d, 'meta.json'), 'w'), indent=1)
